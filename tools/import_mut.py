#!/usr/bin/env python3
"""usage: import_mut.py <worktree> <k> <name>: copy a confirmed mutation into /verif/seeded/<name>/"""
import json, os, shutil, sys
w, k, name = sys.argv[1:4]
src = os.path.join(w, "_out", k)
conf = json.load(open(os.path.join(src, "confirm.json")))
if not conf.get("ok"):
    sys.exit("not confirmed: %s" % conf)
dst = os.path.join("/verif/seeded", name)
os.makedirs(dst, exist_ok=True)
shutil.copy(os.path.join(src, "patch.diff"), dst)
shutil.copy(os.path.join(src, "demo.rs"), dst)
m = json.load(open(os.path.join(src, "meta.json")))
base = os.popen("git -C %s rev-parse --short HEAD" % w).read().strip()
m["confirmed"] = {
    "base_commit": base,
    "ran": ["git apply patch.diff && cargo test --offline --lib  -> " + conf["suite"],
            "cp demo.rs tests/demo.rs && cargo test --offline --test demo  (with patch) -> rc %d (fails)" % conf["demo_with_patch_rc"],
            "git checkout -- lib && cargo test --offline --test demo  (without patch) -> rc %d (passes)" % conf["demo_without_patch_rc"]],
    "where": "scratch worktree %s (removed afterwards)" % w,
}
m.setdefault("detected_by", None)
json.dump(m, open(os.path.join(dst, "meta.json"), "w"), indent=1)
print("imported", name)
