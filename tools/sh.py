"""Interactive helper: python3 -i tools/sh.py  -> db, sh (ilshape.Shape)"""
import sys
sys.path.insert(0, '/verif/fv')
import facts, ilshape
from db import DB
db = DB(facts.extract("", repo="/repo"))
sh = ilshape.Shape(db)
