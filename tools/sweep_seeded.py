#!/usr/bin/env python3
"""Runs every seeded patch against the quick check of its property (apply to /repo, run, revert) and records the
outcome in seeded/<id>/meta.json (detected_by). usage: sweep_seeded.py [prefix...]"""
import json, os, re, subprocess, sys
V = "/verif"
want = sys.argv[1:]
rows = []
implemented = {c["property_id"] for c in json.load(open(V + "/MANIFEST.json"))["checks"]}
for name in sorted(os.listdir(V + "/seeded")):
    if want and not any(name.startswith(w) for w in want):
        continue
    d = os.path.join(V, "seeded", name)
    meta = json.load(open(d + "/meta.json"))
    prop = name.split("-")[0]
    if prop not in implemented:
        rows.append((name, "no check yet", ""))
        continue
    if subprocess.call(["git", "-C", "/repo", "apply", "--3way", d + "/patch.diff"], stderr=subprocess.DEVNULL) != 0:
        subprocess.call(["git", "-C", "/repo", "checkout", "--", "."])
        subprocess.call(["git", "-C", "/repo", "reset", "-q"])
        rows.append((name, "patch does not apply", ""))
        continue
    try:
        p = subprocess.run(["python3", "fv/check.py", prop, "--tier", "quick"], cwd=V, capture_output=True, text=True)
    finally:
        subprocess.call(["git", "-C", "/repo", "reset", "-q"])
        subprocess.call(["git", "-C", "/repo", "checkout", "--", "."])
        subprocess.call(["git", "-C", "/repo", "clean", "-fdq", "--", "lib"])
    rules = sorted(set(re.findall(r"^  rule (\S+)", p.stdout, re.M)))
    first = re.findall(r"^  rule .*$", p.stdout, re.M)[:1]
    if p.returncode == 1 and rules:
        meta["detected_by"] = {"check": prop, "rules": rules, "message": first[0].strip() if first else ""}
        rows.append((name, "DETECTED " + ",".join(rules), first[0].strip()[:110] if first else ""))
    elif p.returncode == 2:
        meta["detected_by"] = None
        meta["checker_outcome"] = "exit 2 (cannot vouch): " + (re.findall(r"^(ANCHOR-LOST.*|CHECKER-ERROR.*)$", p.stdout, re.M) or [""])[0][:200]
        rows.append((name, "EXIT2", meta["checker_outcome"][:110]))
    else:
        meta["detected_by"] = None
        meta.pop("checker_outcome", None)
        rows.append((name, "missed", meta.get("summary", "")[:110]))
    json.dump(meta, open(d + "/meta.json", "w"), indent=1)
for r in rows:
    print("%-9s %-28s %s" % r)
st = subprocess.run(["git", "-C", "/repo", "status", "--short"], capture_output=True, text=True).stdout
if st.strip():
    print("WARNING /repo not clean:\n" + st)
