#!/bin/bash
# usage: tools/suite_at.sh <commit>...  — runs the baseline suite at each commit in the scratch worktree /var/tmp/fv-suite
cd /var/tmp/fv-suite || exit 2
export CARGO_NET_OFFLINE=true
for c in "$@"; do
  git checkout -q --detach "$c" || { echo "$c checkout failed"; continue; }
  out=$(cargo test --workspace --no-fail-fast --offline 2>&1 | grep -E "^test result|FAILED|panicked|error(\[|:)" | head -5 | tr '\n' ' ')
  echo "$c $(git log -1 --format=%s | cut -c1-60) :: $out"
done
