#!/usr/bin/env python3
"""usage: tools/psweep.py refactors|seeded [names...]   (parallel; /repo is not touched)
Each change is applied to its own scratch copy of /repo under /var/tmp/fv-ps.<pid>/<worker> (removed at the end), the facts are
extracted with a per-worker cargo target directory, and the quick checks run with --repo <copy>; evidence of these runs goes to
the scratch directory, not to /verif/evidence.
  refactors: all 20 properties per refactoring; every non-zero exit is recorded in refactors/RESULTS.json
  seeded:    the property of the seeded change; records detected_by / checker_outcome in its meta.json"""
import glob, json, os, re, shutil, subprocess, sys
from concurrent.futures import ThreadPoolExecutor
from queue import Queue
V = "/verif"
sys.path.insert(0, V + "/fv")
import selftest  # noqa: E402
kind = sys.argv[1]
names = sys.argv[2:] or sorted(os.path.basename(os.path.dirname(p)) for p in glob.glob("%s/%s/*/patch.diff" % (V, kind)))
ROOT = os.environ.get("FV_PS_ROOT") or "/var/tmp/fv-ps.%d" % os.getpid()      # a given root is kept (warm target dirs)
NW = 6
workers = Queue()
for w in range(NW):
    workers.put(w)
PROPS = ["C%02d" % i for i in range(1, 21)]


def run_one(name):
    w = workers.get()
    try:
        copy = "%s/w%d/repo" % (ROOT, w)
        selftest.scratch_copy("/repo", copy)
        subprocess.check_call(["git", "init", "-q"], cwd=copy)
        r = subprocess.run(["git", "apply", "--whitespace=nowarn", "%s/%s/%s/patch.diff" % (V, kind, name)], cwd=copy, capture_output=True, text=True)
        if r.returncode != 0:
            return name, None
        env = dict(os.environ, FV_TARGET_DIR="%s/w%d/target" % (ROOT, w), FV_EVIDENCE_DIR="%s/w%d/evidence" % (ROOT, w))
        props = PROPS if kind == "refactors" else [name.split("-")[0]]
        res = {}
        for prop in props:
            c = subprocess.run(["python3", "fv/check.py", prop, "--tier", "quick", "--repo", copy], cwd=V, capture_output=True, text=True, env=env)
            res[prop] = (c.returncode, c.stdout)
        return name, res
    finally:
        workers.put(w)


os.makedirs(ROOT, exist_ok=True)
try:
    with ThreadPoolExecutor(max_workers=NW) as ex:
        results = list(ex.map(run_one, names))
finally:
    if not os.environ.get("FV_PS_ROOT"):
        shutil.rmtree(ROOT, ignore_errors=True)

if kind == "refactors":
    rp = V + "/refactors/RESULTS.json"
    allr = json.load(open(rp)) if os.path.exists(rp) else {}
    for name, res in results:
        if res is None:
            print(name, "patch does not apply")
            continue
        out = {}
        for prop, (rc, txt) in res.items():
            if rc != 0:
                lines = re.findall(r"^(  rule .*|ANCHOR-LOST.*|CHECKER-ERROR.*)$", txt, re.M)[:3]
                out[prop] = {"rc": rc, "lines": [l[:260] for l in lines]}
        allr[name] = out
        print(name, "silent" if not out else "ALARM %s" % [(a, b["rc"]) for a, b in sorted(out.items())], flush=True)
        for a, b in sorted(out.items()):
            for l in b["lines"]:
                print("    ", a, l)
    json.dump(allr, open(rp, "w"), indent=1, sort_keys=True)
    print(len(allr), "refactorings;", sum(1 for v in allr.values() if not v), "silent;",
          sum(1 for v in allr.values() if any(x["rc"] == 1 for x in v.values())), "with a false VIOLATION")
else:
    det = 0
    for name, res in results:
        mp = "%s/seeded/%s/meta.json" % (V, name)
        meta = json.load(open(mp))
        if res is None:
            print(name, "patch does not apply")
            continue
        (prop, (rc, txt)), = res.items()
        rules = sorted(set(re.findall(r"^  rule (\S+)", txt, re.M)))
        first = re.findall(r"^  rule .*$", txt, re.M)[:1]
        if rc == 1 and rules:
            meta["detected_by"] = {"check": prop, "rules": rules, "message": first[0].strip() if first else ""}
            meta.pop("checker_outcome", None)
            det += 1
            print("%-9s DETECTED %s" % (name, ",".join(rules)))
        elif rc == 2:
            meta["detected_by"] = None
            meta["checker_outcome"] = "exit 2 (cannot vouch): " + (re.findall(r"^(ANCHOR-LOST.*|CHECKER-ERROR.*)$", txt, re.M) or [""])[0][:200]
            print("%-9s EXIT2    %s" % (name, meta["checker_outcome"][:140]))
        else:
            meta["detected_by"] = None
            meta.pop("checker_outcome", None)
            print("%-9s missed" % name)
        json.dump(meta, open(mp, "w"), indent=1)
    print(det, "of", len(results), "detected")
