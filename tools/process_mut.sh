#!/bin/bash
# usage: tools/process_mut.sh <Cxx> <worktree-suffix> <import-suffix>
#   confirms /tmp/mut-<Cxx>-<worktree-suffix>/_out/{1,2,3}, imports the confirmed ones as <Cxx>-<import-suffix>{k}, sweeps them.
ID="$1"; WS="$2"; IS="$3"; W="/tmp/mut-$ID-$WS"
cd /verif || exit 2
for k in 1 2 3; do
  [ -f "$W/_out/$k/confirm.json" ] || bash tools/confirm_mut.sh "$W" $k > /dev/null 2>&1
  if grep -q '"ok":true' "$W/_out/$k/confirm.json" 2>/dev/null; then
    python3 tools/import_mut.py "$W" $k "$ID-$IS$k" > /dev/null
  else
    echo "$ID-$IS$k NOT CONFIRMED: $(cat $W/_out/$k/confirm.json 2>/dev/null)"
  fi
done
python3 tools/sweep_seeded.py "$ID-$IS" 2>&1 | grep "^$ID-$IS" | cut -c1-230
