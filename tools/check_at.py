#!/usr/bin/env python3
"""usage: tools/check_at.py <patch.diff> <Cxx> [<Cxx>...]
Runs the quick rules of the given properties on a scratch copy of /repo with the patch applied (outside /repo and /verif,
removed afterwards) - /repo itself is not touched, so this can run while another sweep is using /repo."""
import importlib, os, shutil, subprocess, sys
sys.path.insert(0, os.path.join(os.path.dirname(os.path.abspath(__file__)), "..", "fv"))
import facts, selftest
from db import DB
from report import Report, load_known

patch = os.path.abspath(sys.argv[1])
dst = "/var/tmp/fv-at.%d" % os.getpid()
selftest.scratch_copy(facts.REPO, dst)
try:
    subprocess.check_call(["git", "init", "-q"], cwd=dst)
    r = subprocess.run(["git", "apply", "--whitespace=nowarn", patch], cwd=dst, capture_output=True, text=True)
    if r.returncode != 0:
        print("patch does not apply:", r.stderr[:300])
        sys.exit(2)
    db = DB(facts.extract("", repo=dst))
    for prop in sys.argv[2:]:
        mod = importlib.import_module("props." + prop.lower())
        rep = Report(prop, "quick", 0)
        try:
            mod.run(db, rep, "", "quick")
        except Exception as e:
            print(prop, "stopped:", type(e).__name__, str(e)[:200])
            continue
        known, _ = load_known(prop)
        allinst = list(rep.all_instances())
        bad = [i for i in allinst if i["verdict"] == "bad" and i["key"] not in known]
        print(prop, "instances", len(allinst), "violations", len(bad))
        for i in bad[:5]:
            print("   ", i.get("rule"), i.get("where"), (i.get("msg") or "")[:200])
finally:
    shutil.rmtree(dst, ignore_errors=True)
