#!/bin/bash
# usage: tools/confirm_mut.sh <worktree> <k> : confirms mutation <worktree>/_out/<k> in that scratch worktree:
# suite passes with the patch, demo fails with it, demo passes without it. Writes <worktree>/_out/<k>/confirm.json
W="$1"; K="$2"; O="$W/_out/$K"
cd "$W" || exit 2
export CARGO_NET_OFFLINE=true
git checkout -q -- . ; rm -f tests/demo.rs
if ! git apply "$O/patch.diff"; then echo '{"ok":false,"why":"patch does not apply"}' > "$O/confirm.json"; exit 1; fi
cargo test --offline --lib > "$O/suite.log" 2>&1; s1=$?
passed=$(grep -E "^test result" "$O/suite.log" | head -1)
mkdir -p tests; cp "$O/demo.rs" tests/demo.rs
cargo test --offline --test demo > "$O/demo_with.log" 2>&1; d1=$?
git checkout -q -- lib
cargo test --offline --test demo > "$O/demo_without.log" 2>&1; d0=$?
rm -f tests/demo.rs
ok=false; if [ $s1 -eq 0 ] && [ $d1 -ne 0 ] && [ $d0 -eq 0 ]; then ok=true; fi
printf '{"ok":%s,"suite_rc":%d,"suite":"%s","demo_with_patch_rc":%d,"demo_without_patch_rc":%d}\n' $ok $s1 "$passed" $d1 $d0 > "$O/confirm.json"
cat "$O/confirm.json"
