#!/bin/bash
# usage: tools/try_patch.sh <patch.diff> <prop> [<prop>...]  — applies the patch to /repo, runs the quick
# checks, and undoes it straight afterwards (git checkout -- .). Add -R as first arg to reverse-apply.
REV=""
if [ "$1" = "-R" ]; then REV="-R"; shift; fi
P="$(realpath "$1")"; shift
cd /repo || exit 2
if ! git apply $REV "$P"; then echo "patch does not apply"; exit 2; fi
cd /verif
for id in "$@"; do
  python3 fv/check.py "$id" --tier quick > /tmp/try_$id.out 2>&1
  rc=$?
  echo "== $id rc=$rc: $(grep -c '^VIOLATION' /tmp/try_$id.out) violation(s)"
  grep -E "^  rule|ANCHOR-LOST|CHECKER-ERROR" /tmp/try_$id.out | head -8
done
git -C /repo checkout -- . 
git -C /repo clean -fdq -- lib
git -C /repo status --short | head -3
