#!/usr/bin/env python3
"""usage: tools/sweep_refactor.py <dir-with-_out> [...]: applies each behaviour-preserving refactoring (<dir>/_out/<k>/patch.diff)
to /repo, runs every quick check, reverts, and reports any non-zero exit.  A VIOLATION here is a false alarm of the checker;
exit 2 (ANCHOR-LOST) means the check cannot vouch for the refactored tree."""
import glob, json, os, re, subprocess, sys
V = "/verif"
PROPS = ["C%02d" % i for i in range(1, 21)]
out = []
for d in sys.argv[1:]:
    for p in sorted(glob.glob(os.path.join(d, "_out", "*", "patch.diff"))):
        name = "%s-%s" % (os.path.basename(d.rstrip("/")), os.path.basename(os.path.dirname(p)))
        r = subprocess.run(["git", "-C", "/repo", "apply", "--whitespace=nowarn", p], capture_output=True, text=True)
        if r.returncode != 0:
            out.append((name, "patch does not apply", []))
            continue
        res = []
        try:
            for prop in PROPS:
                c = subprocess.run(["python3", "fv/check.py", prop, "--tier", "quick"], cwd=V, capture_output=True, text=True)
                if c.returncode != 0:
                    lines = re.findall(r"^(  rule .*|ANCHOR-LOST.*|CHECKER-ERROR.*)$", c.stdout, re.M)[:3]
                    res.append((prop, c.returncode, [l[:260] for l in lines]))
        finally:
            subprocess.call(["git", "-C", "/repo", "checkout", "--", "."])
        out.append((name, "ok" if not res else "ALARM", res))
        print(name, "ok" if not res else "ALARM %s" % [(a, b) for a, b, _ in res], flush=True)
        for a, b, ls in res:
            for l in ls:
                print("    ", a, l)
json.dump(out, open("/tmp/sweep_refactor.json", "w"), indent=1)
st = subprocess.run(["git", "-C", "/repo", "status", "--short"], capture_output=True, text=True).stdout
if st.strip():
    print("WARNING /repo not clean:\n" + st)
