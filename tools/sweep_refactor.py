#!/usr/bin/env python3
"""usage: tools/sweep_refactor.py [--props C01,C05] [names...]
Applies each behaviour-preserving refactoring in /verif/refactors/<name>/patch.diff to /repo, runs the quick checks (all 20, or
the given ones), reverts, and reports every non-zero exit.  A VIOLATION here is a false alarm of the checker; exit 2
(ANCHOR-LOST) means the check cannot vouch for the refactored tree.  Results go to /verif/refactors/RESULTS.json."""
import glob, json, os, re, subprocess, sys
V = "/verif"
args = sys.argv[1:]
props = ["C%02d" % i for i in range(1, 21)]
if args and args[0] == "--props":
    props = args[1].split(",")
    args = args[2:]
names = args or sorted(os.path.basename(os.path.dirname(p)) for p in glob.glob(V + "/refactors/*/patch.diff"))
res_all = {}
rp = V + "/refactors/RESULTS.json"
if os.path.exists(rp):
    res_all = json.load(open(rp))
for name in names:
    p = "%s/refactors/%s/patch.diff" % (V, name)
    r = subprocess.run(["git", "-C", "/repo", "apply", "--whitespace=nowarn", p], capture_output=True, text=True)
    if r.returncode != 0:
        print(name, "patch does not apply")
        continue
    res = {}
    try:
        # the facts of the patched tree are extracted once (first check), the remaining checks run in parallel
        from concurrent.futures import ThreadPoolExecutor

        def one(prop):
            return prop, subprocess.run(["python3", "fv/check.py", prop, "--tier", "quick", "--no-evidence"], cwd=V, capture_output=True, text=True)
        first = [one(props[0])]
        with ThreadPoolExecutor(max_workers=10) as ex:
            rest = list(ex.map(one, props[1:]))
        for prop, c in first + rest:
            if c.returncode != 0:
                lines = re.findall(r"^(  rule .*|ANCHOR-LOST.*|CHECKER-ERROR.*)$", c.stdout, re.M)[:3]
                res[prop] = {"rc": c.returncode, "lines": [l[:260] for l in lines]}
    finally:
        subprocess.call(["git", "-C", "/repo", "checkout", "--", "."])
        subprocess.call(["git", "-C", "/repo", "clean", "-fdq", "--", "lib"])      # files the patch created
    prev = res_all.get(name, {})
    if len(props) < 20:
        merged = {k: v for k, v in prev.items() if k not in props}
        merged.update(res)
        res = merged
    res_all[name] = res
    print(name, "silent" if not res else "ALARM %s" % [(a, b["rc"]) for a, b in sorted(res.items())], flush=True)
    for a, b in sorted(res.items()):
        for l in b["lines"]:
            print("    ", a, l)
json.dump(res_all, open(rp, "w"), indent=1, sort_keys=True)
st = subprocess.run(["git", "-C", "/repo", "status", "--short"], capture_output=True, text=True).stdout
if st.strip():
    print("WARNING /repo not clean:\n" + st)
