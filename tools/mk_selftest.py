#!/usr/bin/env python3
"""Populates /verif/selftest/<Cxx>/ with positive controls:
 (a) every seeded change whose meta.json records the rule that detected it;
 (b) the reverse of every `fixed:` commit of KNOWN_FINDINGS.txt that still reverse-applies and makes a rule of that property fire
     (the expected rule is measured once, here, and frozen in the control file)."""
import glob, json, os, re, subprocess, sys, importlib, shutil
sys.path.insert(0, "/verif/fv")
import facts, selftest
VERIF = "/verif"
only = set(sys.argv[1:])
# (a)
for m in sorted(glob.glob(VERIF + "/seeded/*/meta.json")):
    d = json.load(open(m))
    sid = os.path.basename(os.path.dirname(m))
    prop = sid.split("-")[0]
    if only and prop not in only:
        continue
    det = d.get("detected_by") or {}
    rules = (det.get("rules") or ([det["rule"]] if det.get("rule") else [])) if isinstance(det, dict) else []
    rules = [x.split(".")[-1] if False else x for x in rules]
    if not rules:
        continue
    os.makedirs("%s/selftest/%s" % (VERIF, prop), exist_ok=True)
    json.dump({"patch": "%s/seeded/%s/patch.diff" % (VERIF, sid), "reverse": False, "expect": rules,
               "what": "seeded change %s: %s" % (sid, (d.get("summary") or "")[:240])},
              open("%s/selftest/%s/seeded-%s.json" % (VERIF, prop, sid), "w"), indent=1)
# (b)
scratch = "/var/tmp/fv-mkself.%d" % os.getpid()
for line in open(VERIF + "/KNOWN_FINDINGS.txt"):
    mm = re.match(r"fixed:\s+property=(\S+)\s+([0-9a-f]{7,})\s+(.*)$", line.strip())
    if not mm:
        continue
    prop, commit, what = mm.groups()
    if only and prop not in only:
        continue
    out = "%s/selftest/%s/fix-%s" % (VERIF, prop, commit)
    if os.path.exists(out + ".json"):
        continue
    os.makedirs(os.path.dirname(out), exist_ok=True)
    diff = subprocess.check_output(["git", "-C", "/repo", "show", "--format=", commit, "--", "lib"], text=True)
    open(out + ".diff", "w").write(diff)
    selftest.scratch_copy("/repo", scratch)
    r = subprocess.run(["git", "apply", "-R", "--whitespace=nowarn", out + ".diff"], cwd=scratch, stdout=subprocess.PIPE, stderr=subprocess.STDOUT, text=True)
    if r.returncode != 0:
        print(prop, commit, "does not reverse-apply any more; not a control")
        os.remove(out + ".diff")
        continue
    mod = importlib.import_module("props.%s" % prop.lower())
    try:
        fired = selftest.fired_rules(mod, prop, scratch)
    except BaseException as e:
        print(prop, commit, "checker could not run on the reverted tree:", str(e)[:100])
        os.remove(out + ".diff")
        continue
    if not fired:
        print(prop, commit, "reverting it is not detected by", prop, "- not a control")
        os.remove(out + ".diff")
        continue
    json.dump({"patch": os.path.basename(out) + ".diff", "reverse": True, "expect": sorted(fired), "what": "reverse of fix %s: %s" % (commit, what[:240])},
              open(out + ".json", "w"), indent=1)
    print(prop, commit, "control, fires", sorted(fired))
shutil.rmtree(scratch, ignore_errors=True)
