#!/usr/bin/env python3
"""Regenerates the seeded-change table of DESIGN.md (between the seeded-table markers) from seeded/*/meta.json."""
import glob, json, os, re
p = "/verif/DESIGN.md"
s = open(p).read()
rows = ["| seeded | detected by | change |", "|---|---|---|"]
n = det = 0
for m in sorted(glob.glob("/verif/seeded/*/meta.json")):
    d = json.load(open(m)); sid = os.path.basename(os.path.dirname(m))
    dd = d.get("detected_by")
    if isinstance(dd, dict) and dd.get("rules"):
        r = ", ".join(dd["rules"]); det += 1
    elif d.get("checker_outcome"):
        r = "exit 2 (cannot vouch)"
    else:
        r = "**missed**"
    n += 1
    summ = (d.get("summary") or "").replace("|", "/").replace("\n", " ")
    rows.append("| %s | %s | %s |" % (sid, r, summ[:150]))
s = re.sub(r"<!-- seeded-table:begin -->.*?<!-- seeded-table:end -->", "<!-- seeded-table:begin -->\n" + "\n".join(rows) + "\n<!-- seeded-table:end -->", s, flags=re.S)
open(p, "w").write(s)
print(n, "seeded,", det, "detected")
