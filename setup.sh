#!/bin/bash
# Offline setup: build the rustc_private driver; warm the nightly dependency cache.
set -e
cd /verif
exec python3 fv/setup.py
