"""Bit provenance of an IL term: for each result bit, where it comes from (a constant 0/1, bit i of a named source) or
None (data-dependent). A finite abstract evaluation of the term structure built by ilshape; it decides masking / shifting
identities (sub-register composition) exactly and independently of how the mask is spelled."""
import ilshape


MIX = ("mix", -1)


ASSUME = {}      # width assumptions of the current evaluation (symbolic width -> integer), set by the caller


def width(e):
    w = ilshape.wnorm(e[1], ASSUME)
    return w if isinstance(w, int) else None


def src_name(s):
    if s[0] == "scalar" and s[1]:
        return "scalar:" + ("|".join(s[1]) if isinstance(s[1], tuple) else s[1])
    if s[0] == "opaque" and isinstance(s[1], str):
        return s[1]
    return None


def opname(e):
    return e[2][1] if ilshape.is_il(e) and e[2][0] == "op" else None


ENV = {}         # source name -> bit list / constant: pins a register or a temporary for one evaluation


def cfold(e):
    """Value of an IL term made of constants only (modulo its width), else None.  Shifts by the width or more give 0
    (the IL's semantics, property C04)."""
    if not ilshape.is_il(e):
        return None
    w = width(e)
    s = e[2]
    if s[0] == "const":
        if s[1] is None:
            v = ENV.get("const#%s" % s[2]) if len(s) > 2 else None
            return v % (1 << w) if isinstance(v, int) and w is not None else None
        return None if w is None else s[1] % (1 << w)
    if s[0] in ("scalar", "opaque"):
        v = ENV.get(src_name(s))
        return v % (1 << w) if isinstance(v, int) and w is not None else None
    if s[0] == "op" and w is not None and len(s[2]) == 2 and s[1] in ("Add", "Sub", "And", "Or", "Xor", "Mul", "Shl", "Shr"):
        a, b = cfold(s[2][0]), cfold(s[2][1])
        if a is None or b is None:
            return None
        if s[1] == "Shl":
            v = 0 if b >= w else a << b
        elif s[1] == "Shr":
            v = 0 if b >= w else a >> b
        else:
            v = {"Add": a + b, "Sub": a - b, "And": a & b, "Or": a | b, "Xor": a ^ b, "Mul": a * b}[s[1]]
        return v % (1 << w)
    return None


def bits(e):
    """list (LSB first) of 0 | 1 | (source, i) | None, or None if the width is not a known integer."""
    if not ilshape.is_il(e):
        return None
    w = width(e)
    if w is None:
        return None
    s = e[2]
    cv = cfold(e)
    if cv is not None:
        return [(cv >> i) & 1 for i in range(w)]
    if s[0] in ("scalar", "opaque") and isinstance(ENV.get(src_name(s)), list):
        return list(ENV[src_name(s)])[:w]
    if s[0] == "const":
        if s[1] is None:
            # an immediate whose value is not known statically is a source of its own
            return [("const#%s" % s[2], i) for i in range(w)] if len(s) > 2 else [None] * w
        v = s[1] % (1 << w)
        return [(v >> i) & 1 for i in range(w)]
    if s[0] != "op":
        nm = src_name(s)
        return [(nm, i) if nm else None for i in range(w)]
    op, args = s[1], s[2]
    if op == "Zext":
        a = bits(args[0])
        return None if a is None else (a + [0] * w)[:w]
    if op == "Trun":
        a = bits(args[0])
        return None if a is None else a[:w]
    if op == "Sext":
        a = bits(args[0])
        if a is None or not a:
            return None
        return (a + [a[-1]] * w)[:w]      # every extension bit is a copy of the sign bit
    if op in ("Shl", "Shr") and len(args) == 2:
        a = bits(args[0])
        k = cfold(args[1])
        if a is None:
            return None
        if k is None:
            return [None] * w
        if op == "Shl":
            return ([0] * min(k, w) + a)[:w]
        return (a[k:] + [0] * w)[:w]
    if op == "Cmplts" and len(args) == 2 and cfold(args[1]) == 0:
        x = bits(args[0])
        return [x[-1]] if x else [None]
    if op in ("Add", "Sub") and len(args) == 2:
        a, b = bits(args[0]), bits(args[1])
        if a is None or b is None:
            return [None] * w
        # both operands zero-extended from n bits: the sum occupies n+1 bits, the difference sign-extends its borrow
        n = max((max([i for i, x in enumerate(v) if x != 0] or [-1]) + 1) for v in (a, b))
        if n < w:
            ident = "%s#%x" % (op.lower(), hash(e[2]) & 0xffffff)
            if op == "Add":
                return [(ident, i) for i in range(n)] + [(ident + ".carry", 0)] + [0] * (w - n - 1)
            return [(ident, i) for i in range(n)] + [(ident + ".borrow", 0)] * (w - n)
        return [None] * w
    if op == "Ite" and len(args) == 3:
        c, t, f = args
        cb = None
        if opname(c) == "Cmplts" and cfold(c[2][2][1]) == 0:
            x = bits(c[2][2][0])          # x <s 0  is the sign bit of x
            cb = x[-1] if x else None
        tb, fb = bits(t), bits(f)
        if tb is None or fb is None:
            return None
        out = []
        for x, y in zip(tb, fb):
            if x == y:
                out.append(x)
            elif x == 1 and y == 0 and cb is not None:
                out.append(cb)
            else:
                out.append(None)
        return out
    if op == "rotl" and len(args) == 2:
        a = bits(args[0])
        k = args[1][2][1] if args[1][2][0] == "const" else None
        if a is None:
            return None
        if k is None:
            return [None] * w
        k %= w
        return [a[(i - k) % w] for i in range(w)]
    if op in ("And", "Or", "Xor") and len(args) == 2:
        a, b = bits(args[0]), bits(args[1])
        if a is None or b is None or len(a) != len(b):
            return None
        out = []
        for x, y in zip(a, b):
            # two known but different sources combine into a data-dependent bit: MIX (distinct from "not understood" = None)
            mixed = MIX if x is not None and y is not None else None
            if op == "And":
                out.append(0 if 0 in (x, y) else y if x == 1 else x if y == 1 else x if x == y and x is not None else mixed)
            elif op == "Or":
                out.append(1 if 1 in (x, y) else y if x == 0 else x if y == 0 else x if x == y and x is not None else mixed)
            else:
                out.append(y if x == 0 else x if y == 0 else 0 if x == y and x is not None else mixed)
        return out
    return [None] * w


def show(bs):
    if bs is None:
        return "?"
    out, i = [], 0
    while i < len(bs):
        j = i
        b = bs[i]
        if b == MIX:
            while j + 1 < len(bs) and bs[j + 1] == MIX:
                j += 1
            out.append("[%d..%d]=<mixed>" % (i, j))
        elif isinstance(b, tuple):
            while j + 1 < len(bs) and isinstance(bs[j + 1], tuple) and bs[j + 1] != MIX and bs[j + 1][0] == b[0] and bs[j + 1][1] == bs[j][1] + 1:
                j += 1
            out.append("[%d..%d]=%s[%d..%d]" % (i, j, b[0].split(":")[-1], b[1], bs[j][1]))
        else:
            while j + 1 < len(bs) and bs[j + 1] == b:
                j += 1
            out.append("[%d..%d]=%s" % (i, j, "?" if b is None else b))
        i = j + 1
    return " ".join(out)
