#!/usr/bin/env python3
"""Offline setup: build the driver, warm the nightly dependency cache for both feature
configurations by extracting facts once (the dependency check is the slow part)."""
import os
import sys

sys.path.insert(0, os.path.dirname(os.path.abspath(__file__)))
import facts  # noqa: E402

facts.build_driver()
for feat in ("", "thread_safe"):
    d = facts.extract(feat, verbose=True)
    print("facts[%s] -> %s" % (feat or "default", d))
print("setup ok")
