"""Extraction of constant tables (arrays of struct literals) and simple literal facts from HIR."""
from db import strip, walk, int_lit, str_lit, callee
from armlib import last_seg, unq


def lit_value(e):
    e = strip(e)
    v = int_lit(e)
    if v is not None:
        return v
    s = str_lit(e)
    if s is not None:
        return s
    if e.get("k") == "Path":
        r = e["res"]
        return r.get("ctor_of") or r.get("def") or r.get("local")
    if e.get("k") == "Lit" and "bool" in e["v"]:
        return e["v"]["bool"]
    return None


def const_table(db, path):
    """Rows of a `const X: &[S] = &[S {..}, ..]` item as list of dicts field -> literal."""
    b = db.hir.get(path)
    if b is None:
        return None
    rows = []
    for n in walk(b["body"]):
        if n.get("k") == "Struct":
            row = {f["n"]: lit_value(f["e"]) for f in n["fields"]}
            row["_line"] = n["l"]
            rows.append(row)
        elif n.get("k") == "Call" and (callee(n) or "") in db.hir:
            # a row written as a call of a (const) constructor function whose body is one struct literal over its parameters
            h = db.hir[callee(n)]
            lits = [x for x in walk(h["body"]) if x.get("k") == "Struct"]
            if len(lits) != 1 or len(h.get("params", [])) != len(n["args"]):
                continue
            pos = {p_.get("hid"): i for i, p_ in enumerate(h["params"])}
            row = {}
            for f in lits[0]["fields"]:
                e = strip(f["e"])
                if e.get("k") == "Path" and e.get("res", {}).get("hid") in pos:
                    row[f["n"]] = lit_value(n["args"][pos[e["res"]["hid"]]])
                else:
                    row[f["n"]] = lit_value(f["e"])
            row["_line"] = n["l"]
            rows.append(row)
    return rows


def scalar_literals(db, keys):
    """All (name, bits) given literally to il::scalar / il::expr_scalar / Scalar::new in the given HIR bodies."""
    out = set()
    fmt = set()
    for k in keys:
        b = db.hir[k]
        for n in walk(b["body"]):
            c = callee(n)
            if c in ("il::scalar", "il::expr_scalar", "il::scalar::Scalar::new") and n.get("k") == "Call" and len(n["args"]) == 2:
                nm, bits = str_lit(n["args"][0]), int_lit(n["args"][1])
                if nm is not None and bits is not None:
                    out.add((nm, bits))
    return out
