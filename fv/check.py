#!/usr/bin/env python3
"""CLI:  python3 fv/check.py <Cxx> [--tier quick|thorough] [--replay file]

Decides the static rules of one property on /repo's current working tree.
exit 0 = all rule instances hold (known findings printed as KNOWN-FINDING lines)
exit 1 = at least one VIOLATION line
exit 2 = the checker cannot vouch (anchor lost / instance count below floor / extraction failed)
"""
import argparse
import importlib
import json
import os
import sys
import traceback

sys.path.insert(0, os.path.dirname(os.path.abspath(__file__)))

import facts  # noqa: E402
from db import DB  # noqa: E402
from report import AnchorLost, Report, finish  # noqa: E402


def main():
    ap = argparse.ArgumentParser()
    ap.add_argument("prop")
    ap.add_argument("--tier", default=os.environ.get("VERIF_TIER", "quick"))
    ap.add_argument("--replay")
    ap.add_argument("--repo", default=None)
    a = ap.parse_args()
    tier = a.tier if a.tier in ("quick", "thorough") else "quick"
    seed = int(os.environ.get("VERIF_SEED", "0") or 0)
    prop = a.prop.upper()
    mod = importlib.import_module("props.%s" % prop.lower())
    rep = Report(prop, tier, seed)
    configs = [""] if tier == "quick" else ["", "thread_safe"]
    try:
        for feat in configs:
            d = facts.extract(feat, repo=a.repo)
            db = DB(d)
            rep.configs.append({"features": feat or "default", "tree_hash": db.meta["tree_hash"][:16],
                                "hir_bodies": db.meta["hir_bodies"], "mir_bodies": db.meta["mir_bodies"]})
            mod.run(db, rep, feat, tier)
        rep.check_floors()
        if tier == "thorough" and hasattr(mod, "thorough"):
            mod.thorough(rep)
        if tier == "thorough" and not a.replay and not rep.has_unlisted_violation():
            # positive controls: the rules must still fire on known-bad variants (scratch copies outside /repo and /verif)
            import selftest
            selftest.run(prop, mod, rep, repo=a.repo)
    except AnchorLost as e:
        print("ANCHOR-LOST property=%s: %s" % (prop, e))
        print("the checker cannot vouch for this tree (exit 2); no verdict is given")
        return 2
    except SystemExit as e:
        print("CHECKER-ERROR property=%s: %s" % (prop, e))
        return 2
    except Exception:
        traceback.print_exc()
        print("CHECKER-ERROR property=%s: internal error" % prop)
        return 2
    if a.replay:
        want = json.load(open(a.replay))["key"]
        hit = [i for i in rep.all_instances() if i["key"] == want]
        if not hit:
            print("replay: instance %s no longer exists on this tree" % want)
            return 0
        i = hit[0]
        print("replay: %s -> %s at %s: %s" % (want, i["verdict"], i["where"], i["msg"]))
        if i["verdict"] == "bad":
            print("VIOLATION property=%s replay=%s" % (prop, a.replay))
            return 1
        return 0
    return finish(rep)


if __name__ == "__main__":
    sys.exit(main())
