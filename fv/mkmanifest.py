#!/usr/bin/env python3
"""Regenerates /verif/MANIFEST.json from the per-property descriptions in props/*.py (MANIFEST dict)."""
import importlib
import json
import os
import sys

HERE = os.path.dirname(os.path.abspath(__file__))
VERIF = os.path.dirname(HERE)
sys.path.insert(0, HERE)

props = [json.loads(l) for l in open(os.path.join(VERIF, "properties.jsonl"))]
checks, na = [], []
for p in props:
    pid = p["id"]
    try:
        mod = importlib.import_module("props.%s" % pid.lower())
        m = getattr(mod, "MANIFEST", None)
    except ModuleNotFoundError:
        m = None
    if not m:
        na.append({"property_id": pid, "reason": "check not yet implemented in this commit (planned static rules: DESIGN.md section 3)"})
        continue
    if m.get("not_applicable"):
        na.append({"property_id": pid, "reason": m["not_applicable"]})
        continue
    checks.append({
        "property_id": pid,
        "quick_cmd": "python3 fv/check.py %s --tier quick" % pid,
        "thorough_cmd": "python3 fv/check.py %s --tier thorough" % pid,
        "evidence_file": "/verif/evidence/%s.json" % pid,
        "replay_cmd_template": "python3 fv/check.py %s --replay {path}" % pid,
        "engine": "fv",
        "level_claimed": {"category": "other", "text": m["text"], "design_ref": m.get("design_ref", "DESIGN.md section 3, " + pid)},
        "level_note": m["note"],
        "technique": m["technique"],
    })
man = {
    "version": 1,
    "setup_cmd": "bash /verif/setup.sh",
    "hooks": {
        "guard": "falconre_falcon_verif",
        "enable": "none needed: the rustc_private driver observes the unmodified crate (cargo +nightly check with RUSTC_WORKSPACE_WRAPPER); no hook commits in /repo",
        "baseline_off_cmd": "cd /repo && cargo test --workspace --no-fail-fast --offline",
        "source_commits": [],
        "add_only": True,
    },
    "engines": [
        {"name": "fvdrv", "path": "driver/", "serves_properties": [c["property_id"] for c in checks],
         "kind_free_text": "rustc_private driver (nightly) dumping type-checked HIR, MIR (mir-opt-level=0) and item facts of the falcon crate as JSON lines; runs inside cargo +nightly check, executes nothing of falcon"},
        {"name": "fv", "path": "fv/", "serves_properties": [c["property_id"] for c in checks],
         "kind_free_text": "Python rule layer: table/arm agreement, reference tables, MIR dominance and must-pass queries, def-use terms, call-graph panic reachability, abstract interpretation of IL-builder code; static analysis only"},
    ],
    "checks": checks,
    "not_applicable": na,
    "notes": "Static analysis only. Every check re-extracts facts from /repo's current working tree (cache keyed by a hash of lib/, Cargo.toml, Cargo.lock). Exit 2 = checker cannot vouch (anchor lost). Known findings: /verif/KNOWN_FINDINGS.txt.",
}
json.dump(man, open(os.path.join(VERIF, "MANIFEST.json"), "w"), indent=1)
print("checks:", [c["property_id"] for c in checks])
print("not_applicable:", [n["property_id"] for n in na])
