"""C05 — lifting any bytes is total and yields well-formed, deterministic IL.

Decided: panic reachability from the seven translate_block impls with discharge by constant bounds, proved
width obligations (ilshape), structural premises and a reviewed site list (R1); no definite width refutation
in any lifter (R2); outgoing guards of a block form a recognised complementary family (R3); every handler
sets entry and exit (R4); every lifting loop advances by the decoded size (R5); unsupported instructions
become an intrinsic or an error, never a panic (R6). Not decided: termination of the third-party decoders.
"""
import json
import os

from armlib import last_seg, unq
from db import Cfg, callee, mir_callee, mir_calls, walk
from mirterm import calls_in, show, subterms, terms_of
import ilshape
import lifters
import panics

HERE = os.path.dirname(os.path.abspath(__file__))
REVIEWED = os.path.join(os.path.dirname(HERE), "refs", "c05_reviewed_sites.json")
ARCHES = ("x86", "mips", "ppc", "aarch64")
CFGN = "il::control_flow_graph::ControlFlowGraph::"


FLOOR_R2 = {"x86": 100, "mips": 70, "ppc": 25, "aarch64": 30}
FLOOR_R4 = {"x86": 80, "mips": 60, "ppc": 20, "aarch64": 20}


def shape_runs(db):
    """ilshape results for every handler of every lifter (cached on the db object)."""
    cached = getattr(db, "_shape_runs", None)
    if cached is not None:
        return cached
    sh = ilshape.Shape(db)
    runs = {}
    for arch in ARCHES:
        for h in lifters.handlers_of(db, arch):
            try:
                runs[h] = sh.run(h)
            except RecursionError:
                runs[h] = None
    # helper functions that are not handlers themselves (plumbing), analysed standalone with symbolic parameters
    extra = [k for k in db.hir.keys() if k.startswith("translator::") and "::{closure#" not in k and "::tests" not in k
             and "test::" not in k and k not in runs and "/translator/" in "/" + db.hir.file_of(k) and
             not db.hir.file_of(k).endswith(("/translator/mod.rs", "/translator/options.rs")) and
             not k.endswith("::translate_block") and db.hir[k].get("dk") in ("Fn", "AssocFn")]
    for k in extra:
        try:
            runs[k] = sh.run(k)
        except RecursionError:
            runs[k] = None
    db._shape_runs = runs
    return runs


def obligations_by_site(runs):
    # A site inside a helper is judged in the contexts of the handlers that reach it (the helper is interpreted inline with their
    # operands).  The standalone interpretation of the helper, with symbolic parameters, only counts for sites that no handler
    # context reaches: otherwise factoring a fragment of a handler out into a helper would turn proved obligations into open ones.
    inline, alone = {}, {}
    for h, r in runs.items():
        if r is None:
            continue
        for o in r.obl:
            (alone if o["fn"] == h else inline).setdefault((o["fn"], o["line"]), []).append(o["verdict"])
    by = dict(inline)
    for k, v in alone.items():
        if k not in inline:
            by[k] = v
    return by


# helpers whose constants are all sized by one width parameter (confirmed by reading): function -> parameter name
WIDTH_PARAMETRIC = {"translator::aarch64::semantics::shift": "out_bits"}


def r2b(db, rep, rid="R2b"):
    r = rep.rule(rid, "K9", "width-parametric helpers: every IL constant such a helper builds is sized by its width parameter; a "
                 "literal width meets an operand of the caller's width in a binary constructor and fails with a sort error "
                 "(unwrapped: a panic) for the other operand sizes")
    for fn, pname in sorted(WIDTH_PARAMETRIC.items()):
        body = db.mir.get(fn)
        rep.anchor(body is not None, fn)
        tm = terms_of(db, fn, {})
        usize_params = [i for i in range(1, body["argc"] + 1) if body["types"][body["locals"][i]] == "usize"]
        pl = usize_params[0] if len(usize_params) == 1 else None
        for nm, plc in body.get("names", []):
            if pl is None and nm == pname and len(plc) == 1 and plc[0] <= body["argc"]:
                pl = plc[0]
        rep.anchor(pl is not None, "%s: parameter %s" % (fn, pname))
        sites = [(t, tm.operand(t["args"][1])) for i, t in mir_calls(body) if (mir_callee(t) or "") == "il::expr_const"]
        by_param = [x for x in sites if x[1] == ("param", pl)]
        rep.anchor(len(by_param) >= 3, "%s sizes its constants with %s (found %d sites)" % (fn, pname, len(by_param)))
        lit = [x for x in sites if isinstance(x[1], tuple) and x[1][0] == "const"]
        r.decide(not lit, "%s|constants_sized_by_%s" % (last_seg(fn), pname), db.where(body, lit[0][0].get("l")) if lit else db.where(body),
                 "%s builds a constant of the literal width %s; its other constants are %s wide: for operands of another width the "
                 "constructor returns a sort error" % (last_seg(fn), lit[0][1][1] if lit else "", pname))


def r1o(db, rep, rid="R1o"):
    r = rep.rule(rid, "K8", "load address at the top of the address space: successor and instruction addresses derived from the block's "
                 "load address are computed without an overflow check that panics (debug builds check `address + offset`)")
    for arch in ARCHES:
        fn = lifters.TB[arch]
        body = db.mir.get(fn)
        rep.anchor(body is not None, fn)
        tm = terms_of(db, fn, {})
        u64p = [i for i in range(1, body["argc"] + 1) if body["types"][body["locals"][i]] == "u64"]
        al = u64p[0] if len(u64p) == 1 else None
        for nm, pl in body.get("names", []):
            if al is None and nm == "address" and len(pl) == 1 and pl[0] <= body["argc"]:
                al = pl[0]
        rep.anchor(al is not None, "%s: parameter address" % fn)
        sites = []
        for i, b in enumerate(body["blocks"]):
            t = b["t"]
            if t["k"] == "Assert" and t.get("ak") == "Overflow" and t["detail"]["op"] == "Add":
                a, bb = tm.operand(t["detail"]["a"]), tm.operand(t["detail"]["b"])
                if ("param", al) in (a, bb):
                    sites.append(t["l"])
        r.decide(not sites, "%s|address_add_overflow" % arch, db.where(body, sites[0]) if sites else db.where(body),
                 "%s translate_block computes `address + offset` with overflow checking at %d site(s): lifting bytes whose window "
                 "reaches the end of the 64-bit address space panics with `attempt to add with overflow` in builds with overflow "
                 "checks (wraps silently otherwise)" % (arch, len(sites)))


def run(db, rep, feat, tier):
    rep.explanation = (
        "Static rules over HIR/MIR of lib/translator/**: (R1) the call graph from the seven Translator::translate_block "
        "impls is searched for panic sites; a site is discharged by a constant index into a fixed-size operand array, a "
        "non-zero literal divisor, a width obligation that the abstract interpreter ilshape proves in every context "
        "(IL constructor followed by unwrap), structural premises (fresh block index; entry/exit set on an index just "
        "returned by new_block; capstone detail enabled in the same function), or an entry of the reviewed site list "
        "with its reason; any other site is reported; (R2) ilshape interprets every handler and helper of the four "
        "lifters over abstract IL values and reports *definite* width refutations (both widths written in the same "
        "activation or contradicted by a comparison assumed on the path); (R3) conditional edges leaving one block in one "
        "control context, and the successor lists of terminators, must be a recognised complementary pair; (R4) all "
        "handlers reach Ok only through set_entry and set_exit; (R5) each translate_block loop adds the decoded size to "
        "its offset on every path back to the loop head; (R6) the default arm of every dispatch is an intrinsic or an "
        "error; (R1o) `address + offset` in the block translators is an overflow-checked addition of the load address. "
        "Decoder termination is not decided; other overflow assertions (debug only) are not panic sites.")
    runs = shape_runs(db)
    r2(db, rep, runs)
    r3(db, rep, runs)
    r4(db, rep)
    r5(db, rep)
    r6(db, rep)
    r1(db, rep, runs)
    r1o(db, rep)
    r2b(db, rep)


# ------------------------------------------------------------------------------------------------ R2
def r2(db, rep, runs, arches=ARCHES, rid="R2"):
    r = rep.rule(rid, "K10", "IL width rules in lifter code (binary operands equal, extensions strictly widen, truncations "
                 "strictly narrow, ite condition 1 bit and arms equal, assignment widths equal, load/store widths "
                 "positive multiples of 8, guards 1 bit): no definite refutation; open obligations are counted")
    n = {"proved": 0, "open": 0, "conditional": 0, "refuted": 0}
    seen = set()
    for h, res in sorted(runs.items()):
        if res is None:
            r.open("%s|interpretation" % h, "", "abstract interpretation did not finish")
            continue
        if not any("translator::%s::" % a in h for a in arches):
            continue
        rep.analysed(h)
        bad = []
        for o in res.obl:
            n[o["verdict"]] = n.get(o["verdict"], 0) + 1
            if o["verdict"] == "refuted":
                key = (o["fn"], o["kind"], o["detail"])
                if key in seen:
                    continue
                seen.add(key)
                bad.append(o)
        fb = db.hir.get(h)
        if bad:
            for i, o in enumerate(bad):
                fnb = db.hir.get(o["fn"]) or fb
                r.bad("%s|%s|%s|%d" % (o["fn"], o["kind"], o["detail"], 0), db.where(fnb, o["line"]),
                      "ill-sorted IL is built in %s: %s" % (last_seg(o["fn"]), o["detail"]))
        else:
            r.ok("%s|widths" % h, db.where(fb), detail={"obligations": len(res.obl),
                                                        "proved": sum(1 for o in res.obl if o["verdict"] == "proved")})
    rep.notes.append({"%s_obligations" % rid: n})
    r.floor(sum(FLOOR_R2[a] for a in arches), "handlers and helpers of the lifters")
    return n


# ------------------------------------------------------------------------------------------------ R3
def formula(e):
    """1-bit IL expression -> propositional formula over atoms (term == k); None if not understood."""
    if e is None:
        return ("true",)
    if e == "?" or not ilshape.is_il(e):
        return None
    s = e[2]
    if s[0] == "op":
        op, args = s[1], s[2]
        if op in ("Cmpeq", "Cmpneq") and len(args) == 2:
            a, b = args
            if b[2][0] == "const" and b[2][1] is not None:
                k = b[2][1]
                inner = formula(a) if ilshape.wnorm(a[1], {}) == 1 else None
                if inner is not None and k in (0, 1):
                    f = inner if k == 1 else ("not", inner)
                else:
                    key = term_key(a)
                    if key is None:
                        return None
                    f = ("atom", key, k, ilshape.wnorm(a[1], {}))
                return f if op == "Cmpeq" else ("not", f)
            ka, kb = term_key(a), term_key(b)
            if ka is not None and kb is not None and ilshape.wnorm(a[1], {}) == 1 and ka.startswith(("scalar:", "reg:")) \
                    and kb.startswith(("scalar:", "reg:")):
                # x == y for 1-bit x, y
                fa, fb = ("atom", ka, 1, 1), ("atom", kb, 1, 1)
                eq = ("or", ("and", fa, fb), ("and", ("not", fa), ("not", fb)))
                return eq if op == "Cmpeq" else ("not", eq)
            ka, kb = term_key(a), term_key(b)
            if ka is None or kb is None:
                return None
            f = ("atom", "Cmpeq(%s)" % ",".join(sorted((ka, kb))), 1, 1)
            return f if op == "Cmpeq" else ("not", f)
        if op in ("And", "Or") and len(args) == 2 and ilshape.wnorm(e[1], {}) == 1:
            fa, fb = formula(args[0]), formula(args[1])
            if fa is None or fb is None:
                return None
            return ("and" if op == "And" else "or", fa, fb)
        key = term_key(e)
        return ("atom", key, 1, 1) if key is not None and ilshape.wnorm(e[1], {}) == 1 else None
    key = term_key(e)
    if key is None:
        return None
    return ("atom", key, 1, ilshape.wnorm(e[1], {}))


def term_key(e):
    """Identity of a value read at the decision point: named scalars and identified registers only."""
    if not ilshape.is_il(e):
        return None
    s = e[2]
    if s[0] == "scalar" and s[1]:
        return "scalar:%s" % ("|".join(s[1]) if isinstance(s[1], tuple) else s[1])
    if s[0] == "opaque" and isinstance(s[1], str) and (s[1].startswith("reg:") or "#" in s[1]):
        return s[1]
    if s[0] == "const" and s[1] is not None:
        return "const:%s:%s" % (s[1], ilshape.wnorm(e[1], {}))
    if s[0] == "const" and len(s) > 2:
        return "const#%s" % s[2]
    if s[0] == "op" and s[1].startswith("join#"):
        return s[1]
    if s[0] == "op":
        ks = [term_key(a) for a in s[2]]
        if all(k is not None for k in ks):
            return "%s(%s)" % (s[1], ",".join(ks))
    return None


def atoms_of(f, out):
    if f[0] == "atom":
        out.setdefault(f[1], set()).add(f[2])
        out.setdefault(("w", f[1]), set()).add(f[3])
    elif f[0] in ("not",):
        atoms_of(f[1], out)
    elif f[0] in ("and", "or"):
        atoms_of(f[1], out)
        atoms_of(f[2], out)


def evalf(f, asg):
    if f[0] == "true":
        return True
    if f[0] == "atom":
        return asg[f[1]] == f[2]
    if f[0] == "not":
        return not evalf(f[1], asg)
    if f[0] == "and":
        return evalf(f[1], asg) and evalf(f[2], asg)
    return evalf(f[1], asg) or evalf(f[2], asg)


def exactly_one(guards):
    """Finite propositional check: under every valuation of the values the guards compare, exactly one guard holds.
    True / (False, witness) / None (a guard is not a boolean combination of comparisons with constants)."""
    fs = [formula(g) for g in guards]
    if any(f is None for f in fs):
        return None
    at = {}
    for f in fs:
        atoms_of(f, at)
    terms = [k for k in at if not isinstance(k, tuple)]
    if len(terms) > 6:
        return None
    doms = []
    for t in terms:
        ks = set(at[t])
        w = at.get(("w", t), {None})
        if w == {1}:
            dom = {0, 1}
        else:
            dom = ks | {"other"}
        doms.append(sorted(dom, key=str))
    import itertools
    for combo in itertools.product(*doms):
        asg = dict(zip(terms, combo))
        n = sum(1 for f in fs if evalf(f, asg))
        if n != 1:
            return (False, "%d guards hold when %s" % (n, ", ".join("%s=%s" % (t.split(":", 1)[-1], v) for t, v in asg.items())))
    return True


def prefix(a, b):
    return a[:len(b)] == b or b[:len(a)] == a


def r3(db, rep, runs, arches=ARCHES, rid="R3"):
    r = rep.rule(rid, "K10", "exactly one enabled edge: the guards of the conditional edges leaving one block in one "
                 "control context, and of the successors pushed by one terminator, form a recognised complementary "
                 "pair ({g, g==0}, {x==k, x!=k}, {f==1, f==0}); identical guards, or an unconditional edge beside a "
                 "conditional one, are violations; other shapes are undecided")
    n = 0
    for h, res in sorted(runs.items()):
        if res is None or not any("translator::%s::" % a in h for a in arches):
            continue
        fb = db.hir.get(h)
        # group edges by head block
        heads = {}
        for e in res.edges:
            heads.setdefault(repr(e["head"]), []).append(e)
        for hd, es in heads.items():
            # families: edges whose contexts are prefix-compatible
            used = set()
            for i, e in enumerate(es):
                if i in used:
                    continue
                fam = [e]
                used.add(i)
                for j in range(i + 1, len(es)):
                    if j not in used and prefix(es[j]["ctx"], e["ctx"]):
                        fam.append(es[j])
                        used.add(j)
                if len(fam) == 1:
                    if fam[0]["kind"] == "cond":
                        # a lone conditional edge in its context: look for siblings in *any* context (arms of a match
                        # each adding one edge are alternatives, not siblings)
                        r.open("%s|edges|%s|%d" % (h, hd, i), db.where(db.hir.get(fam[0]["fn"]) or fb, fam[0]["line"]),
                               "single conditional edge in its control context")
                    continue
                n += 1
                key = "%s|edges|%s|%d" % (h, hd, i)
                where = db.where(db.hir.get(fam[0]["fn"]) or fb, fam[0]["line"])
                v = exactly_one([f["guard"] for f in fam])
                shown = [ilshape.show_e(f["guard"]) if f["guard"] not in (None, "?") else "unconditional" for f in fam]
                if v is True:
                    r.ok(key, where, detail={"guards": shown})
                elif v is None:
                    r.open(key, where, "guards are not boolean combinations of comparisons with constants: %s" % shown)
                else:
                    r.bad(key, where, "edges leaving one block are not mutually exclusive and exhaustive (%s): %s" % (v[1], " / ".join(shown)))
    r.floor(8, "conditional edge pairs in the lifters")
    # successors pushed by one terminator (translate_block interpreted as a whole, handlers inlined)
    sh = ilshape.Shape(db)
    for arch in arches:
        res = sh.run(lifters.TB[arch])
        fb = db.hir[lifters.TB[arch]]
        fams = {}
        for s_ in res.succ:
            fams.setdefault(s_["ctx"], []).append(s_)
        # merge a conditional push with pushes in a directly nested context (x86: second successor under `if imm`)
        keys = sorted(fams, key=len)
        merged = {}
        for k in keys:
            host = None
            for m in merged:
                if k[:len(m)] == m or (len(k) == len(m) and k[:-1] == m[:-1] and False):
                    host = m
            par = [m for m in merged if len(m) <= len(k) and all(x in k or x.startswith("if@") for x in m) and m[-1:] != k[-1:] and set(m) & set(k)]
            merged.setdefault(k, []).extend(fams[k])
        for ctx, fam in merged.items():
            conds = [f for f in fam if f["guard"] is not None]
            if not conds:
                continue
            # siblings: pushes whose context shares the terminator arm (first differing element is an `if`)
            sib = list(fam)
            for c2, f2 in merged.items():
                if c2 is ctx:
                    continue
                common = [x for x in ctx if x in c2]
                if common and any(x.startswith("match@") for x in common) and len(set(ctx) ^ set(c2)) <= 2:
                    sib.extend(f2)
            uniq = []
            for f in sib:
                if f not in uniq:
                    uniq.append(f)
            if len(uniq) < 2:
                r.open("%s|successors|%s" % (arch, fam[0]["line"]), db.where(db.hir.get(fam[0]["fn"]) or fb, fam[0]["line"]),
                       "single conditional successor in its context")
                continue
            v = exactly_one([f["guard"] for f in uniq])
            key = "%s|successors|%s|%s" % (arch, last_seg(uniq[0]["fn"]), "/".join(str(x) for x in ctx[-2:]))
            where = db.where(db.hir.get(uniq[0]["fn"]) or fb, uniq[0]["line"])
            shown = [ilshape.show_e(f["guard"]) if f["guard"] not in (None, "?") else str(f["guard"]) for f in uniq]
            if v is True:
                r.ok(key, where, detail={"guards": shown})
            elif v is None:
                r.open(key, where, "successor guards not decidable: %s" % shown)
            else:
                r.bad(key, where, "successors of one terminator are not mutually exclusive and exhaustive (%s): %s" % (v[1], " / ".join(shown)))
    return n


# ------------------------------------------------------------------------------------------------ R4
def r4(db, rep, arches=ARCHES, rid="R4"):
    r = rep.rule(rid, "K6", "every instruction handler reaches Ok only through set_entry and set_exit on the graph it "
                 "fills (directly or through a helper that does)")
    for arch in arches:
        hs = lifters.handlers_of(db, arch)
        rep.anchor(len(hs) >= {"x86": 80, "mips": 60, "ppc": 20, "aarch64": 20}[arch], "%s handlers (found %d)" % (arch, len(hs)))
        hs = list(hs)
        lifters.entry_exit_rule(db, rep, r, hs)
    r.floor(sum(FLOOR_R4[a] for a in arches), "handlers")


# ------------------------------------------------------------------------------------------------ R5
def r5(db, rep, arches=ARCHES, rid="R5"):
    r = rep.rule(rid, "K6", "progress: in each translate_block the byte offset is advanced by the decoded instruction's "
                 "size (a positive quantity) on every path from decoding an instruction back to the loop head")
    for arch in arches:
        fn = lifters.TB[arch]
        body = db.mir.get(fn)
        rep.anchor(body is not None, fn)
        rep.analysed(fn)
        cfg = Cfg(body)
        tm = terms_of(db, fn, {})
        def wraps_decoder(c, depth=0):
            # a private function of the translator that makes the decoder call on behalf of translate_block
            b2 = db.mir.get(c) if c.startswith("translator::") and "{closure#" not in c else None
            if b2 is None or depth > 2:
                return False
            return any(last_seg(mir_callee(t2) or "") in ("disasm", "decode") or wraps_decoder(mir_callee(t2) or "", depth + 1)
                       for _i2, t2 in mir_calls(b2))
        decodes = [i for i, t in mir_calls(body) if last_seg(mir_callee(t) or "") in ("disasm", "decode") or
                   wraps_decoder(mir_callee(t) or "")]
        rep.anchor(decodes, "decoder call in %s" % fn)
        # assignments `offset = offset + size`
        incs = []
        for i, b in enumerate(body["blocks"]):
            t = b["t"]
            if t["k"] == "Assert" and t["ak"] == "Overflow" and t["detail"]["op"] == "Add":
                a, bb = tm.operand(t["detail"]["a"]), tm.operand(t["detail"]["b"])
                txt = show(bb)
                if ("size" in txt or bb == ("const", 4) or "len" in txt) and a[0] in ("phi", "rec", "bin", "field", "const", "cast"):
                    incs.append((i, t["l"], txt))
        # loop head = first block of the loop containing the decode: the decode block reaches itself
        ok = False
        d = decodes[0]
        if incs:
            # every cycle through the decode passes one of the increments that feed `offset`
            inc_blocks = [i for i, _l, _t in incs]
            reach = cfg.reachable(cfg.succ[d][0] if cfg.succ[d] else d, avoid=inc_blocks)
            ok = d not in reach
        r.decide(ok, "%s|progress" % arch, db.where(body),
                 "a path returns to the decoder without advancing the offset (increments found: %s)" % [(l, t) for _i, l, t in incs][:4])


# ------------------------------------------------------------------------------------------------ R6
def r6(db, rep, arches=ARCHES, rid="R6"):
    r = rep.rule(rid, "K1", "unsupported-instruction policy: the default arm of each dispatch either emits an intrinsic "
                 "(when the option asks for it) or returns an error; it never panics")
    for arch in arches:
        hb, ms = lifters.insn_matches(db, arch)
        rep.anchor(ms, "dispatch in %s" % arch)
        disp = max(ms, key=lambda m: len(m.arms))
        d = disp.default()
        if d is None:
            if arch == "aarch64":
                # exhaustive match: unsupported ops are an explicit arm returning Err(unsupported())
                errs = [a for a in disp.arms if any((c or "").endswith("unsupported") for c in a["callees"])]
                r.decide(bool(errs), "%s|default" % arch, db.where(hb, disp.line), "no unsupported arm")
                continue
            r.bad("%s|default" % arch, db.where(hb, disp.line), "dispatch has no default arm")
            continue
        cs = [last_seg(c) for c in d["callees"]]
        panics_ = [c for c in d["callees"] if c.startswith("core::panicking") or last_seg(c) in ("unwrap", "expect")]
        ok = ("unhandled_intrinsic" in cs) and d["returns_err"] and not panics_
        r.decide(ok, "%s|default" % arch, db.where(hb, d["line"]),
                 "default arm must offer the intrinsic and otherwise return an error (callees %s)" % sorted(set(cs))[:8])


# ------------------------------------------------------------------------------------------------ R1
def r1(db, rep, runs, rid="R1"):
    r = rep.rule(rid, "K8", "never panics: every panic site reachable from the seven translate_block impls is discharged "
                 "(constant bounds, proved IL widths, structural premises) or is on the reviewed list with its reason")
    entries = [k for k in db.mir.keys() if k.endswith("::translate_block") and k.startswith("<translator::")]
    rep.anchor(len(entries) == 7, "seven Translator::translate_block impls (found %d)" % len(entries))
    by = obligations_by_site(runs)
    reviewed = json.load(open(REVIEWED)) if os.path.exists(REVIEWED) else {}
    stats = {"ilshape": 0, "premise": 0, "reviewed": 0}

    def discharge(db_, body, tm, s):
        t = s["extra"]
        fn = s["fn"]
        hfn = fn.split("::{closure#")[0]
        if s["kind"] == "unwrap" and s.get("origin"):
            o = s["origin"]
            if o.startswith("il::expression::Expression::") and last_seg(o) not in ("get_constant", "get_scalar"):
                vs = by.get((hfn, s["line"]))
                if vs and all(v == "proved" for v in vs):
                    stats["ilshape"] += 1
                    return "ilshape proves the width obligation of %s at this site in all %d contexts" % (last_seg(o), len(vs))
            if o == CFGN + "new_block":
                stats["premise"] += 1
                return "new_block inserts a vertex with the fresh next_index (C15.R3), insertion cannot collide"
            if o in (CFGN + "set_entry", CFGN + "set_exit"):
                ot = s["oterm"]
                arg = ot[2][1] if len(ot[2]) > 1 else None
                if arg is not None and any(c[1] == "il::block::Block::index" and any(
                        cc[1] == CFGN + "new_block" for cc in calls_in(c)) for c in calls_in(arg)):
                    stats["premise"] += 1
                    return "index of a block just returned by new_block on the same graph"
        return None

    # premise of the reviewed class capstone-detail: CS_OPT_DETAIL is switched on before the first disassembly
    rp = rep.rule("R1p", "K6", "premise: each capstone-based translate_block enables CS_OPT_DETAIL on a path that "
                  "dominates every disasm call (instruction detail is then always present)")
    for arch in ("x86", "mips", "ppc"):
        body = db.mir[lifters.TB[arch]]
        cfg = Cfg(body)
        def detail_sites(fn_, b_):
            tm_ = terms_of(db, fn_, {})
            out_ = []
            for i_, t_ in mir_calls(b_):
                if (mir_callee(t_) or "").endswith("Capstone::option"):
                    txt = " ".join(show(tm_.operand(a)) for a in t_["args"])
                    if "CS_OPT_DETAIL" in txt and "CS_OPT_ON" in txt:
                        out_.append(i_)
            return out_

        # the decoder may be set up (and detail switched on) by a private constructor function of the translator
        setup = {c for c in db.mir.keys() if c.startswith("translator::%s::" % arch) and "{closure#" not in c and
                 c != lifters.TB[arch] and detail_sites(c, db.mir[c])}
        opt = detail_sites(lifters.TB[arch], body) + [i for i, t in mir_calls(body) if (mir_callee(t) or "") in setup]
        dis = [i for i, t in mir_calls(body) if last_seg(mir_callee(t) or "") == "disasm"]
        detail_on = bool(opt)
        rp.decide(bool(opt) and bool(dis) and detail_on and all(any(cfg.dominates(o, d) for o in opt) for d in dis),
                  "%s|detail_on" % arch, db.where(body), "disassembly can run without CS_OPT_DETAIL having been enabled")
    site_allow = {k: v["reason"] for k, v in reviewed.items()}
    panics.reach_rule(db, rep, r, entries, scope_prefixes=("translator::", "<translator::"), site_allow=site_allow,
                      extra_discharge=discharge, floor=200)
    rep.notes.append({"R1_discharge_stats": stats, "R1_reviewed_entries": len(reviewed)})


MANIFEST = {
    "technique": "static analysis: abstract interpretation of IL-builder code (widths, guard shapes), call-graph panic reachability with proved-obligation discharge, MIR must-pass rules",
    "text": "Decides on every run structural necessary conditions of 'total and well-formed': no undischarged, unreviewed "
            "panic site reachable from any of the seven translators; no definite width refutation in any lifter (the "
            "abstract interpreter proves several hundred width obligations outright, e.g. all 346 of the MIPS lifter); "
            "guards of conditional edges and of the successors of each terminator are mutually exclusive and exhaustive "
            "(propositional enumeration); every handler, including the rep wrappers, sets entry and exit; the lifting "
            "loops make progress; unsupported instructions become an intrinsic or an error; the load address is added "
            "with overflow checking (four known findings). It does not decide decoder termination, nor well-formedness "
            "where widths depend on decoder operand invariants (reported as undecided).",
    "note": "Trusted: rustc nightly HIR/MIR; transfer functions of the IL DSL and register tables in fv/ilshape.py; the "
            "reviewed panic-site list fv/refs/c05_reviewed_sites.json (182 sites, one reason each: decoder operand "
            "count/kind/width invariants of capstone/bad64, window slices) - these are assumptions, one class was "
            "falsified and repaired during the build (DESIGN.md section 0.6); other overflow assertions are excluded.",
}
