"""C02 — MIPS and PowerPC lifters.

Decided (structural necessary conditions): the three MIPS branch tables agree (delay-slot look-ahead,
branch classification, dispatch) and equal the architectural delay-slot set (R1); distinct mnemonics share a
handler only if reviewed (R2); effect signatures per mnemonic against the manuals: HI/LO and link writers,
load/store class, access width and extension kind, signed/unsigned twins, trapping arithmetic, indirect
transfers, PPC branch family and condition flags (R3); register tables (R4); no definite width refutation (R5);
MIPS conditional branches decide on the value latched before the delay slot and their two successors are
complementary (R6); PPC terminators end the block (R7). Not decided: value-level semantics (unaligned
loads, rotate masks, multiply-accumulate carries), latch order of link/indirect targets.
"""
from armlib import last_seg
from db import callee, walk
import ilshape
import lifters
import tables
import props.c05 as c05

SIGNED = {"Divs", "Mods", "Sext", "AShr", "sra", "Cmplts"}
MIPS_DELAY = {"B", "BEQ", "BEQZ", "BGEZ", "BGTZ", "BLEZ", "BLTZ", "BNE", "BNEZ", "J", "JR", "JAL", "JALR", "BAL", "BGEZAL", "BLTZAL"}

# reference rows: id -> requirements.  W: must assign, Wn: must not assign, ops: must construct, opsn: must not construct,
# any: at least one of, load/store: access width, kinds: operation kinds that must be emitted
MIPS_REF = {
    "ADD": {"ops": {"Add"}, "kinds": {"Intrinsic"}}, "ADDI": {"ops": {"Add"}, "kinds": {"Intrinsic"}},
    "SUB": {"ops": {"Sub"}, "kinds": {"Intrinsic"}},
    "ADDU": {"ops": {"Add"}, "kindsn": {"Intrinsic"}}, "ADDIU": {"ops": {"Add"}, "kindsn": {"Intrinsic"}},
    "SUBU": {"ops": {"Sub"}, "kindsn": {"Intrinsic"}}, "NEGU": {"ops": {"Sub"}, "kindsn": {"Intrinsic"}},
    "MULT": {"W": {"$hi", "$lo"}, "any": SIGNED, "ops": {"Mul"}}, "MULTU": {"W": {"$hi", "$lo"}, "opsn": SIGNED, "ops": {"Mul"}},
    "MADD": {"W": {"$hi", "$lo"}, "R": {"$hi", "$lo"}, "any": SIGNED}, "MSUB": {"W": {"$hi", "$lo"}, "R": {"$hi", "$lo"}, "any": SIGNED},
    "MADDU": {"W": {"$hi", "$lo"}, "R": {"$hi", "$lo"}, "opsn": {"Sext", "Divs", "Mods"}},
    "MSUBU": {"W": {"$hi", "$lo"}, "R": {"$hi", "$lo"}, "opsn": {"Sext", "Divs", "Mods"}},
    "DIV": {"W": {"$hi", "$lo"}, "ops": {"Divs", "Mods"}, "opsn": {"Divu", "Modu"}},
    "DIVU": {"W": {"$hi", "$lo"}, "ops": {"Divu", "Modu"}, "opsn": {"Divs", "Mods"}},
    "MFHI": {"R": {"$hi"}, "Wn": {"$hi", "$lo"}}, "MFLO": {"R": {"$lo"}, "Wn": {"$hi", "$lo"}},
    "MTHI": {"W": {"$hi"}, "Wn": {"$lo"}}, "MTLO": {"W": {"$lo"}, "Wn": {"$hi"}},
    "SLT": {"ops": {"Cmplts"}, "opsn": {"Cmpltu"}}, "SLTI": {"ops": {"Cmplts"}, "opsn": {"Cmpltu"}},
    "SLTU": {"ops": {"Cmpltu"}, "opsn": {"Cmplts"}}, "SLTIU": {"ops": {"Cmpltu"}, "opsn": {"Cmplts"}},
    "SRA": {"any": {"AShr", "sra"}}, "SRAV": {"any": {"AShr", "sra"}},
    "SRL": {"ops": {"Shr"}, "opsn": {"AShr", "sra"}}, "SRLV": {"ops": {"Shr"}, "opsn": {"AShr", "sra"}},
    "SLL": {"ops": {"Shl"}}, "SLLV": {"ops": {"Shl"}},
    "AND": {"ops": {"And"}}, "ANDI": {"ops": {"And"}}, "OR": {"ops": {"Or"}}, "ORI": {"ops": {"Or"}},
    "XOR": {"ops": {"Xor"}}, "XORI": {"ops": {"Xor"}}, "NOR": {"ops": {"Or"}},
    "LB": {"load": 8, "ops": {"Sext"}}, "LBU": {"load": 8, "ops": {"Zext"}, "opsn": {"Sext"}},
    "LH": {"load": 16, "ops": {"Sext"}}, "LHU": {"load": 16, "ops": {"Zext"}, "opsn": {"Sext"}},
    "LW": {"load": 32}, "LL": {"load": 32},
    "SB": {"store": 8}, "SH": {"store": 16}, "SW": {"store": 32}, "SC": {"store": 32},
    "LWL": {"kinds": {"Load"}}, "LWR": {"kinds": {"Load"}}, "SWL": {"kinds": {"Store"}}, "SWR": {"kinds": {"Store"}},
    "JAL": {"W": {"$ra"}}, "BAL": {"W": {"$ra"}}, "BGEZAL": {"W": {"$ra"}}, "BLTZAL": {"W": {"$ra"}},
    "JALR": {"kinds": {"Branch"}}, "JR": {"kinds": {"Branch"}, "Wn": {"$ra"}},
    "SYSCALL": {"kinds": {"Intrinsic"}}, "BREAK": {"kinds": {"Intrinsic"}}, "RDHWR": {"kinds": {"Intrinsic"}},
    "LUI": {"opsn": SIGNED}, "MOVE": {"kindsn": {"Load", "Store"}},
}
PPC_REF = {
    "BL": {"W": {"lr"}}, "BLR": {"R": {"lr"}, "kinds": {"Branch"}}, "BCLR": {"R": {"lr"}, "kinds": {"Branch"}},
    "BCTR": {"R": {"ctr"}, "kinds": {"Branch"}}, "MTLR": {"W": {"lr"}}, "MFLR": {"R": {"lr"}, "Wn": {"lr"}},
    "MTCTR": {"W": {"ctr"}},
    "BDNZL": {"W": {"ctr", "lr"}},
    "CMPWI": {"ops": {"Cmplts"}, "opsn": {"Cmpltu"}}, "CMPLWI": {"ops": {"Cmpltu"}, "opsn": {"Cmplts"}},
    "SRAWI": {"any": {"AShr", "sra"}}, "LBZ": {"load": 8, "ops": {"Zext"}, "opsn": {"Sext"}},
    "LWZ": {"load": 32}, "LWZU": {"load": 32}, "STW": {"store": 32}, "STWU": {"store": 32}, "STMW": {"store": 32},
    "ADD": {"ops": {"Add"}}, "ADDI": {"ops": {"Add"}}, "ADDIS": {"ops": {"Add"}},
    "LI": {"kindsn": {"Load", "Store"}}, "MR": {"kindsn": {"Load", "Store"}},
}
# mnemonics that legitimately share a handler (same data movement; reason each)
SHARE_OK = {
    ("mips", "b"): "B/BEQ/BEQZ/.../J: direct branches are lifted to a nop graph; the transfer is expressed by the successors pushed in translate_block",
    ("mips", "nop"): "hint / barrier instructions without architectural effect in this model (NOP, SYNC, PREF, ...)",
    ("ppc", "nop"): "B/BC placeholders: the transfer is expressed by successors in translate_block (BDNZL shares it and is reported by R3: known finding)",
}


def idn(x):
    return x.split("_INS_")[-1]


def signature(res):
    assigned, loads, stores, kinds = set(), set(), set(), set()
    for o in res.ops:
        kinds.add(o["kind"])
        if o["kind"] == "Assign" and o.get("dst"):
            if isinstance(o["dst"], tuple):
                assigned |= set(o["dst"])
            else:
                assigned.add(o["dst"])
        if o["kind"] == "Load":
            loads.add(ilshape.wnorm(o.get("dw"), {}))
        if o["kind"] == "Store":
            stores.add(ilshape.wnorm(o.get("sw"), {}))
    return {"W": assigned, "R": set(res.reads), "ops": set(res.ops_used), "load": loads, "store": stores, "kinds": kinds}


def check_rows(r, db, arch, disp, runs, ref, hb):
    by = disp.by_id()
    n = 0
    for full_id, arm in sorted(by.items()):
        i = idn(full_id)
        if i not in ref:
            continue
        hs = arm["handlers"]
        if not hs and any(last_seg(c) in ("nop", "nop_graph") for c in arm["callees"]):
            # lifted as a placeholder without any effect
            sig = {"W": set(), "R": set(), "ops": set(), "load": set(), "store": set(), "kinds": {"Nop"}}
            hs = [lifters.TB[arch]]
        elif not hs or hs[0] not in runs or runs[hs[0]] is None:
            r.open("%s|%s" % (arch, i), db.where(hb, arm["line"]), "handler not interpreted")
            continue
        else:
            sig = signature(runs[hs[0]])
        row = ref[i]
        probs = []
        if not row.get("W", set()) <= sig["W"]:
            probs.append("must assign %s, assigns %s" % (sorted(row["W"] - sig["W"]), sorted(x for x in sig["W"] if x)))
        if row.get("Wn", set()) & sig["W"]:
            probs.append("must not assign %s" % sorted(row["Wn"] & sig["W"]))
        if not row.get("R", set()) <= sig["R"] | sig["W"] and not row.get("R", set()) <= sig["R"]:
            probs.append("must read %s" % sorted(row["R"] - sig["R"]))
        if not row.get("ops", set()) <= sig["ops"]:
            probs.append("must use %s, uses %s" % (sorted(row["ops"] - sig["ops"]), sorted(sig["ops"])))
        if row.get("opsn", set()) & sig["ops"]:
            probs.append("must not use %s" % sorted(row["opsn"] & sig["ops"]))
        if "any" in row and not (row["any"] & sig["ops"]):
            probs.append("must use one of %s, uses %s" % (sorted(row["any"]), sorted(sig["ops"])))
        if "load" in row and sig["load"] != {row["load"]}:
            probs.append("must load %d bits, loads %s" % (row["load"], sorted(map(str, sig["load"]))))
        if "store" in row and sig["store"] != {row["store"]}:
            probs.append("must store %d bits, stores %s" % (row["store"], sorted(map(str, sig["store"]))))
        if not row.get("kinds", set()) <= sig["kinds"]:
            probs.append("must emit %s" % sorted(row["kinds"] - sig["kinds"]))
        if row.get("kindsn", set()) & sig["kinds"]:
            probs.append("must not emit %s" % sorted(row["kindsn"] & sig["kinds"]))
        n += 1
        r.decide(not probs, "%s|%s" % (arch, i), db.where(db.hir[hs[0]]),
                 "%s is lifted by %s: %s" % (i, last_seg(hs[0]), "; ".join(probs)),
                 detail={"handler": hs[0], "assigns": sorted(x for x in sig["W"] if x), "ops": sorted(sig["ops"])})
    return n


def run(db, rep, feat, tier):
    rep.explanation = (
        "Static rules over the HIR of lib/translator/{mips,ppc}/**: the dispatch, delay-slot look-ahead and branch "
        "classification matches of mips::translate_block are read as tables of capstone ids and compared with each "
        "other and with the architectural delay-slot set; ids sharing a handler must be reviewed aliases; each handler "
        "is interpreted by ilshape and its effect signature (scalars assigned and read by name, IL operators "
        "constructed, load/store widths, operation kinds) is compared with the reference row of every mnemonic "
        "dispatched to it (MIPS32 vol. II, Power ISA book I); register tables are checked row by row; width obligations "
        "must not be definitely refuted; the successors of MIPS conditional branches must be complementary guards over "
        "the latched scalar branching_condition, whose defining graph is pushed before the delay slot; PPC terminators "
        "break out of the lifting loop. Value-level semantics are not decided.")
    runs = c05.shape_runs(db)
    hbm, mm = lifters.insn_matches(db, "mips")
    hbp, pm = lifters.insn_matches(db, "ppc")
    rep.anchor(len(mm) == 3 and len(pm) == 2, "mips: dispatch, look-ahead, classification matches; ppc: dispatch, terminators")
    mdisp, mpre, mcls = mm
    pdisp, pterm = pm
    r1(db, rep, hbm, mdisp, mpre, mcls)
    r2(db, rep, hbm, mdisp, hbp, pdisp, runs)
    r3 = rep.rule("R3", "K3", "effect signature of the handler of every mnemonic with a reference row (scalars assigned / "
                  "read, operators, access widths, operation kinds) satisfies the row")
    n = check_rows(r3, db, "mips", mdisp, runs, MIPS_REF, hbm)
    n += check_rows(r3, db, "ppc", pdisp, runs, PPC_REF, hbp)
    # nobody else writes $hi/$lo
    hilo = {"MULT", "MULTU", "MADD", "MADDU", "MSUB", "MSUBU", "DIV", "DIVU", "MTHI", "MTLO", "MUL"}
    for full_id, arm in sorted(mdisp.by_id().items()):
        i = idn(full_id)
        hs = arm["handlers"]
        if i in hilo or not hs or runs.get(hs[0]) is None:
            continue
        sig = signature(runs[hs[0]])
        if sig["W"] & {"$hi", "$lo"}:
            r3.bad("mips|%s|hilo" % i, db.where(db.hir[hs[0]]), "%s writes HI/LO" % i)
    # HI||LO is a concatenation: wherever LO (or HI) is widened to form the 64-bit accumulator it is zero-extended
    for h, res in sorted(runs.items()):
        if res is None or "translator::mips::semantics::" not in h or not ({"$hi", "$lo"} & res.reads):
            continue
        bad = []
        for o in res.ops:
            for f in ("src", "addr"):
                if o.get(f) is not None:
                    bad += [(o, x) for x in ext_of(o[f], {"$lo", "$hi"}) if x != "Zext"]
        r3.decide(not bad, "mips|%s|accumulator_halves" % last_seg(h), db.where(db.hir[h], bad[0][0]["line"]) if bad else db.where(db.hir[h]),
                  "%s widens a half of the HI||LO accumulator with %s; the halves are concatenated, so each is zero-extended" % (
                      last_seg(h), bad[0][1] if bad else ""))
    r3.floor(70, "mnemonics with reference rows")
    r9(db, rep, runs)
    r4(db, rep)
    c05.r2(db, rep, {k: v for k, v in runs.items() if "translator::mips::" in k or "translator::ppc::" in k}, ("mips", "ppc"), "R5")
    r6(db, rep, hbm, mcls)
    r7(db, rep, hbp, pdisp, pterm)
    r10(db, rep, tier)
    r11(db, rep)
    r12(db, rep)
    r13(db, rep, runs)
    c05.r4(db, rep, ("mips", "ppc"), "R8")


def ppc_mask(mb, me):
    """Power ISA MASK(mb, me), bits numbered 0 (msb) .. 31; returned LSB-first as a list of 0/1."""
    out = []
    for j in range(32):
        be = 31 - j
        inside = (mb <= be <= me) if mb <= me else (be <= me or be >= mb)
        out.append(1 if inside else 0)
    return out


def r10(db, rep, tier):
    import bitprov
    r = rep.rule("R10", "K9", "PowerPC rotate-and-mask and immediate forms, bit for bit: for every (mb, me) and sampled shift amounts the "
                 "value rlwinm_ assigns is ROTL32(rS, sh) & MASK(mb, me) (bit provenance of the IL term built for those immediates); "
                 "slwi passes (sh, 0, 31-sh); lis yields the immediate in the upper half and zeros below")
    sh = ilshape.Shape(db)
    f = "translator::ppc::semantics::rlwinm_"
    rep.anchor(f in db.hir, f)
    shifts = range(32) if tier == "thorough" else (0, 1, 4, 16, 31)
    bad = None
    n = 0
    for k in shifts:
        for mb in range(32):
            for me in range(32):
                res = sh.run(f, args={1: ("sc", "ra", 32, "G"), 2: ilshape.opaque(32, "rs"), 3: ilshape.I(k), 4: ilshape.I(mb), 5: ilshape.I(me)})
                asg = [o for o in res.ops if o["kind"] == "Assign"]
                got = bitprov.bits(asg[0]["src"]) if len(asg) == 1 else None
                m = ppc_mask(mb, me)
                want = [("rs", (i - k) % 32) if m[i] else 0 for i in range(32)]
                n += 1
                if got != want and bad is None:
                    bad = (k, mb, me, got, want)
    r.decide(bad is None, "ppc|rlwinm_|mask", db.where(db.hir[f]),
             "rlwinm rA, rS, %s, %s, %s assigns %s; the architecture gives %s" % (
                 bad and bad[0], bad and bad[1], bad and bad[2], bitprov.show(bad and bad[3]), bitprov.show(bad and bad[4])),
             detail={"immediates_evaluated": n})
    # slwi: arguments of the shared helper
    hb = db.hir.get("translator::ppc::semantics::slwi")
    rep.anchor(hb is not None, "ppc::semantics::slwi")
    ok = False
    from db import int_lit
    for c in walk(hb["body"]):
        if (callee(c) or "") == f and len(c.get("args", ())) == 6:
            a = c["args"]
            mbv = int_lit(a[4])
            mev = a[5]
            me_ok = mev.get("k") == "Binary" and mev["op"] == "Sub" and int_lit(mev["a"]) == 31 and \
                mev["b"].get("k") == "Path" and a[3].get("k") == "Path" and mev["b"]["res"].get("hid") == a[3]["res"].get("hid")
            ok = mbv == 0 and me_ok
    r.decide(ok, "ppc|slwi|arguments", db.where(hb), "slwi rA, rS, n is rlwinm rA, rS, n, 0, 31-n")
    # lis
    res = sh.run("translator::ppc::semantics::lis")
    asg = [o for o in res.ops if o["kind"] == "Assign"]
    got = bitprov.bits(asg[0]["src"]) if len(asg) == 1 else None
    ok = got is not None and got[:16] == [0] * 16 and all(isinstance(b, tuple) and b[0].startswith("const#") and b[1] == i for i, b in enumerate(got[16:]))
    r.decide(ok, "ppc|lis", db.where(db.hir["translator::ppc::semantics::lis"]),
             "lis rD, SI assigns %s; the architecture gives zeros in bits 0..15 and SI in bits 16..31" % bitprov.show(got))


def r11(db, rep):
    from db import Cfg, mir_calls, mir_callee
    from mirterm import terms_of
    r = rep.rule("R11", "K6", "MIPS window end with a pending delay slot: the unguarded fall-through successor pushed when the bytes are "
                 "exhausted is reachable only through a test of the delay-slot state (a branch whose delay slot is missing must "
                 "not fall through)")
    fn = lifters.TB["mips"]
    body = db.mir.get(fn)
    rep.anchor(body is not None, fn)
    cfg = Cfg(body)
    tm = terms_of(db, fn, {})
    bd = sl = al = None
    u64p = [i for i in range(1, body["argc"] + 1) if body["types"][body["locals"][i]] == "u64"]
    al = u64p[0] if len(u64p) == 1 else None
    for li, ty in enumerate(body["locals"]):
        tys = body["types"][ty]
        if li <= body["argc"]:
            continue
        if bd is None and tys.endswith("TranslateBranchDelay"):
            bd = li
        if sl is None and tys.startswith("std::vec::Vec<(u64, std::option::Option<il::expression::Expression>)>"):
            sl = li
    rep.anchor(None not in (bd, sl, al), "mips translate_block: locals branch_delay, successors, address")
    st = tm.local(sl)
    tests = [i for i, b in enumerate(body["blocks"]) if b["t"]["k"] == "SwitchInt" and
             isinstance(tm.operand(b["t"]["discr"]), tuple) and tm.operand(b["t"]["discr"])[0] == "discr" and
             any(s_.get("rv", {}).get("k") == "Discriminant" and s_["rv"]["p"][0] == bd for s_ in b["s"])]
    pushes = []
    for i, t in mir_calls(body):
        if (mir_callee(t) or "").endswith("Vec::<T, A>::push") and tm.operand(t["args"][0]) == st:
            a = tm.operand(t["args"][1])
            if isinstance(a, tuple) and a[0] == "tuple" and len(a[1]) == 2 and isinstance(a[1][1], tuple) and a[1][1][0] == "agg" and a[1][1][1].endswith("None"):
                pushes.append((i, t))
    # the loop-head exit is the first such push in source order
    pushes.sort(key=lambda x: x[1].get("l", 0))
    rep.anchor(bool(pushes), "window-end successor push")
    first = pushes[0][0]
    reach = cfg.reachable(0, avoid=tests)
    r.decide(bool(tests) and first not in reach, "mips|window_end|delay_state_tested", db.where(body, pushes[0][1].get("l")),
             "the window-end fall-through successor is pushed without looking at the delay-slot state: a branch that is the last "
             "instruction of the given bytes gets its own successors plus an unconditional one, and its delay slot is dropped")


def r12(db, rep):
    """lwl / lwr / swl / swr for each of the four alignments: the effective address is pinned (base := 0x100 + b, displacement
    := 0), the builder's own address and mask arithmetic folds to constants, and the bytes that reach the register / memory are
    compared with the MIPS32 definition (big-endian byte numbering), byte by byte, in the bit-provenance domain."""
    import bitprov
    r = rep.rule("R12", "K9", "MIPS unaligned accesses, byte for byte and for each alignment EA % 4: LWL fills the register from its most "
                 "significant byte with mem[EA .. word end], LWR fills it from its least significant byte with mem[word start .. EA], "
                 "SWL/SWR store the corresponding register bytes and leave the other memory bytes unchanged")
    sh = ilshape.Shape(db)
    for nm in ("lwl", "lwr", "swl", "swr"):
        f = "translator::mips::semantics::" + nm
        rep.anchor(f in db.hir, f)
        res = sh.run(f)
        loads = [o for o in res.ops if o["kind"] == "Load"]
        outs = [o for o in res.ops if o["kind"] == ("Assign" if nm[0] == "l" else "Store")]
        if len(loads) != 1 or len(outs) != 1:
            r.open("mips|%s" % nm, db.where(db.hir[f]), "unexpected operation list")
            continue
        base_ids = set()
        reg_reads(loads[0]["addr"], base_ids)
        rt_ids = set()
        reg_reads(outs[0]["src"], rt_ids)
        rt_ids -= base_ids
        consts = {x[2][2] for o in res.ops for k in ("addr", "src") if o.get(k) is not None for x in subexprs(o[k])
                  if x[2][0] == "const" and x[2][1] is None and len(x[2]) > 2}
        if len(base_ids) != 1 or len(rt_ids) > 1:
            r.open("mips|%s" % nm, db.where(db.hir[f]), "base / rt registers not identified")
            continue
        base = "reg:" + next(iter(base_ids))
        rt = "reg:" + (next(iter(rt_ids)) if rt_ids else "?")
        bad = None
        unknown = False
        for b in range(4):
            ea = 0x100 + b
            al = ea & ~3
            bitprov.ENV = {base: ea}
            for c in consts:
                bitprov.ENV["const#%s" % c] = 0
            la = bitprov.cfold(loads[0]["addr"])
            if la is None:
                bad = (b, "the load address does not fold to a constant")
                break
            # big-endian word at la: byte j (address la + j) is bits 8*(3-j) .. 8*(3-j)+7
            tmp = [None] * 32
            for j in range(4):
                for t in range(8):
                    tmp[8 * (3 - j) + t] = ("mem", (la + j) * 8 + t)
            bitprov.ENV["scalar:temp"] = tmp
            got = bitprov.bits(outs[0]["src"])
            regbyte = lambda i, t: (rt, 8 * (3 - i) + t)          # register byte i, counted from the most significant
            if nm[0] == "l":
                want = [None] * 32
                for i in range(4):
                    for t in range(8):
                        if nm == "lwl":
                            src = ("mem", (ea + i) * 8 + t) if i <= 3 - b else regbyte(i, t)
                        else:
                            k = 3 - i
                            src = ("mem", (ea - k) * 8 + t) if k <= b else regbyte(i, t)
                        want[8 * (3 - i) + t] = src
                ok = got == want
            else:
                sa = bitprov.cfold(outs[0]["addr"])
                if sa is None:
                    bad = (b, "the store address does not fold to a constant")
                    break
                ok = got is not None
                newmem = {}
                if ok:
                    for j in range(4):
                        for t in range(8):
                            newmem[(sa + j) * 8 + t] = got[8 * (3 - j) + t]
                    for a in range(al - 4, al + 8):
                        for t in range(8):
                            if nm == "swl":
                                i = a - ea
                                exp = regbyte(i, t) if 0 <= i <= 3 - b else ("mem", a * 8 + t)
                            else:
                                k = ea - a
                                exp = regbyte(3 - k, t) if 0 <= k <= b else ("mem", a * 8 + t)
                            have = newmem.get(a * 8 + t, ("mem", a * 8 + t))
                            if have != exp:
                                ok = False
            if got is None or any(x is None for x in got):
                unknown = True
            elif not ok and bad is None:
                bad = (b, "with EA %% 4 = %d the %s is %s" % (b, "register" if nm[0] == "l" else "stored word", bitprov.show(got)))
        bitprov.ENV = {}
        if bad is None and unknown:
            r.open("mips|%s" % nm, db.where(db.hir[f]), "the term built for some alignment is not understood by the bit-provenance evaluator")
        else:
            r.decide(bad is None, "mips|%s" % nm, db.where(db.hir[f]), "%s: %s" % (nm, bad[1] if bad else ""))


def subexprs(e):
    if not ilshape.is_il(e):
        return
    yield e
    if e[2][0] == "op":
        for a in e[2][2]:
            yield from subexprs(a)


def r13(db, rep, runs):
    r = rep.rule("R13", "K3", "every architectural flag or special scalar that some handler reads is assigned by some handler of the "
                 "same lifter (a flag that is consumed but never produced makes the consumer compute on an undefined value)")
    for arch, tab in (("mips", "translator::mips::semantics::MIPS_REGISTERS"), ("ppc", "translator::ppc::semantics::PPC_REGISTERS")):
        regs = {x["name"] for x in (tables.const_table(db, tab) or [])}
        reads, writes = {}, set()
        for h, res in runs.items():
            if res is None or ("translator::%s::" % arch) not in h:
                continue
            for x in res.reads:
                if isinstance(x, str):
                    reads.setdefault(x, h)
            for o in res.ops:
                if o["kind"] in ("Assign", "Load") and isinstance(o.get("dst"), str):
                    writes.add(o["dst"])
        sh = ilshape.Shape(db)
        tb = sh.run(lifters.TB[arch])
        for x in tb.reads:
            if isinstance(x, str):
                reads.setdefault(x, lifters.TB[arch])
        for o in tb.ops:
            if o["kind"] in ("Assign", "Load") and isinstance(o.get("dst"), str):
                writes.add(o["dst"])
        for nm in sorted(reads):
            if nm in regs or nm == "temp":
                continue
            if "-" in nm and nm.split("-", 1)[0] in regs:
                # field of a table register (cr0-eq ...): written through the table-driven helper under a formatted name
                continue
            r.decide(nm in writes, "%s|scalar_written|%s" % (arch, nm), db.where(db.hir[reads[nm]]) if reads[nm] in db.hir else "",
                     "%s is read by %s but no %s handler ever assigns it" % (nm, last_seg(reads[nm]), arch))


def r1(db, rep, hb, disp, pre, cls):
    r = rep.rule("R1", "K1", "MIPS branch tables agree: ids of the delay-slot look-ahead = ids whose classification arm "
                 "arms the delay-slot state = the architectural delay-slot branch set; each is dispatched")
    pre_ids = set()
    for a in pre.arms:
        if not a["wild"]:
            pre_ids |= {idn(i) for i in a["ids"]}
    cls_ids = set()
    for a in cls.arms:
        if a["wild"]:
            continue
        sets_delay = any(x.get("k") == "Assign" and any(y.get("k") == "Path" and "::TranslateBranchDelay::" in (y["res"].get("ctor_of", "") or "") for y in walk(x["rhs"])) for x in walk(a["arm"].body))
        if sets_delay:
            cls_ids |= {idn(i) for i in a["ids"]}
    disp_ids = {idn(i) for i in disp.by_id()}
    for i in sorted(MIPS_DELAY | pre_ids | cls_ids):
        ok = (i in pre_ids) and (i in cls_ids) and (i in MIPS_DELAY) and (i in disp_ids)
        where = db.where(hb, pre.line)
        r.decide(ok, "mips|delay|%s" % i, where,
                 "%s: look-ahead %s, arms delay slot %s, architectural delay-slot branch %s, dispatched %s (a delay-slot "
                 "branch missing from the look-ahead loses its delay slot at the end of a 64-byte window)" % (
                     i, i in pre_ids, i in cls_ids, i in MIPS_DELAY, i in disp_ids))
    r.floor(16, "16 delay-slot branches")


def r2(db, rep, hbm, mdisp, hbp, pdisp, runs):
    r = rep.rule("R2", "K1", "handler sharing: two distinct mnemonics are dispatched to one handler only if the handler "
                 "is a reviewed alias (it cannot tell them apart otherwise)")
    for arch, hb, disp in (("mips", hbm, mdisp), ("ppc", hbp, pdisp)):
        by_handler = {}
        for full_id, arm in disp.by_id().items():
            for h in arm["handlers"][:1]:
                by_handler.setdefault(h, set()).add(idn(full_id))
            if not arm["handlers"]:
                local = [c for c in arm["callees"] if last_seg(c) in ("nop", "nop_graph")]
                if local:
                    by_handler.setdefault(local[0], set()).add(idn(full_id))
        for h, ids in sorted(by_handler.items()):
            if len(ids) < 2:
                r.ok("%s|%s" % (arch, last_seg(h)), "", detail={"ids": sorted(ids)})
                continue
            key = (arch, last_seg(h))
            # a handler that inspects the instruction id may serve several mnemonics
            hbody = db.hir.get(h)
            discriminates = hbody is not None and any(
                x.get("k") == "Field" and x["name"] == "id" for x in walk(hbody["body"]))
            r.decide(key in SHARE_OK or discriminates, "%s|%s" % (arch, last_seg(h)), db.where(hbody) if hbody else "",
                     "%s are all lifted by %s, which does not distinguish them" % (sorted(ids), last_seg(h)),
                     detail={"ids": sorted(ids), "reason": SHARE_OK.get(key)})


def r4(db, rep):
    r = rep.rule("R4", "K2", "register tables: 32 MIPS GPRs with unique capstone ids, o32 names in index order, 32 bits; "
                 "32 PPC GPRs r0..r31 plus special registers, unique ids, 32 bits; $zero reads as the constant 0")
    o32 = ["$zero", "$at", "$v0", "$v1", "$a0", "$a1", "$a2", "$a3", "$t0", "$t1", "$t2", "$t3", "$t4", "$t5", "$t6", "$t7",
           "$s0", "$s1", "$s2", "$s3", "$s4", "$s5", "$s6", "$s7", "$t8", "$t9", "$k0", "$k1", "$gp", "$sp", "$fp", "$ra"]
    rows = tables.const_table(db, "translator::mips::semantics::MIPS_REGISTERS")
    rep.anchor(rows is not None, "MIPS_REGISTERS")
    for i, row in enumerate(rows):
        want_id = "MIPS_REG_%d" % i
        ok = last_seg(row["capstone_reg"]) == want_id and row["name"] == (o32[i] if i < 32 else None) and row["bits"] == 32
        r.decide(ok, "mips|row|%d" % i, "lib/translator/mips/semantics.rs:%s" % row["_line"],
                 "row %d is (%s, %s, %s), expected (%s, %s, 32)" % (i, row["name"], last_seg(row["capstone_reg"]), row["bits"],
                                                                    o32[i] if i < 32 else "?", want_id))
    r.decide(len(rows) == 32, "mips|rows", "", "MIPS register table has %d rows" % len(rows))
    prow = tables.const_table(db, "translator::ppc::semantics::PPC_REGISTERS")
    rep.anchor(prow is not None, "PPC_REGISTERS")
    ids = [last_seg(x["capstone_reg"]) for x in prow]
    r.decide(len(ids) == len(set(ids)), "ppc|unique_ids", "", "duplicate capstone id in PPC_REGISTERS")
    for i in range(32):
        m = [x for x in prow if last_seg(x["capstone_reg"]) == "PPC_REG_R%d" % i]
        r.decide(len(m) == 1 and m[0]["name"] == "r%d" % i and m[0]["bits"] == 32, "ppc|row|r%d" % i, "",
                 "PPC_REG_R%d row is %s" % (i, [(x["name"], x["bits"]) for x in m]))
    # $zero
    hb = db.hir.get("translator::mips::semantics::MipsRegister::expression")
    rep.anchor(hb is not None, "MipsRegister::expression")
    zero = False
    for n in walk(hb["body"]):
        if n.get("k") == "If":
            lit = [x["v"].get("str") for x in walk(n["c"]) if x.get("k") == "Lit"]
            consts = [x for x in walk(n["then"]) if callee(x) == "il::expr_const"]
            if "$zero" in lit and consts:
                from db import int_lit
                zero = int_lit(consts[0]["args"][0]) == 0 and int_lit(consts[0]["args"][1]) == 32
    r.decide(zero, "mips|zero_reads_constant", db.where(hb), "$zero must read as expr_const(0, 32)")


def r6(db, rep, hb, cls):
    r = rep.rule("R6", "K10", "MIPS conditional branches: the condition is latched into the scalar branching_condition by a "
                 "graph pushed before the delay slot, and the two successors are guarded by branching_condition and "
                 "branching_condition == 0 (never by the raw register comparison, which the delay slot could change)")
    sh = ilshape.Shape(db)
    res = sh.run(lifters.TB["mips"])
    # a conditional branch is an arm of the dispatch that pushes more than one successor or a guarded one (identified by
    # what it does, not by the name of the helper it goes through)
    groups = {}
    for s in res.succ:
        groups.setdefault(s["ctx"], []).append(s)
    fams = {ctx: fam for ctx, fam in groups.items() if len(fam) >= 2 or any(f["guard"] is not None for f in fam)}
    rep.anchor(len(fams) >= 8, "conditional-branch arms (found %d)" % len(fams))

    def arm_of(ctx):
        c = list(ctx)
        while c and c[-1].startswith("call:"):
            c.pop()
        return tuple(c)

    _, matches = lifters.insn_matches(db, "mips")

    def label(arm):
        # name the arm by the mnemonics it lifts (keys carry no line numbers)
        if arm and arm[-1].startswith("match@"):
            ln, _, ix = arm[-1][6:].partition(":")
            for m in matches:
                if str(m.line) == ln and ix.isdigit() and int(ix) < len(m.arms):
                    return "/".join(i.replace("MIPS_INS_", "") for i in m.arms[int(ix)]["ids"]) or "default"
        return "/".join(x.split("@")[0] for x in arm[-2:]) or "top"

    for ctx, fam in sorted(fams.items(), key=lambda kv: str(kv[0])):
        arm = arm_of(ctx)
        key = "mips|cond_branch|%s" % label(arm)
        gs = [f["guard"] for f in fam]
        v = c05.exactly_one(gs) if len(gs) == 2 else None
        latched = all(g not in (None, "?") and {c05.term_key(x) for x in leaves(g)} <= {"scalar:branching_condition", None} and
                      "scalar:branching_condition" in {c05.term_key(x) for x in leaves(g)} for g in gs)
        where = db.where(db.hir.get(fam[0]["fn"]) or hb, fam[0]["line"])
        r.decide(v is True and latched, key, where,
                 "successor guards %s are not {branching_condition, branching_condition == 0}" % [ilshape.show_e(g) if g not in (None, "?") else g for g in gs])
        # the latching graph: the same arm emits exactly one 1-bit assignment to branching_condition
        asg = [o for o in res.ops if o["kind"] == "Assign" and o.get("dst") == "branching_condition" and tuple(o["ctx"][:len(arm)]) == arm]
        r.decide(len(asg) == 1 and asg[0]["dw"] == 1, "mips|latch|%s" % label(arm), where,
                 "the arm must push one graph assigning the 1-bit scalar branching_condition (found %s)" % [(o["dw"], o.get("fn")) for o in asg])
    # nobody else assigns branching_condition (the delay slot must not be able to change it)
    others = [o for o in res.ops if o["kind"] == "Assign" and o.get("dst") == "branching_condition" and
              not any(tuple(o["ctx"][:len(arm_of(c))]) == arm_of(c) for c in fams)]
    r.decide(not others, "mips|latch_only_in_branches", db.where(hb), "branching_condition is assigned outside a conditional-branch arm: %s" % [(o.get("fn"), o.get("line")) for o in others][:3])


def leaves(e):
    out = []
    if not ilshape.is_il(e):
        return out
    s = e[2]
    if s[0] == "op":
        for a in s[2]:
            out += leaves(a)
    elif s[0] != "const":
        out.append(e)
    return out


def r7(db, rep, hb, disp, term):
    r = rep.rule("R7", "K1", "PPC control transfers end the lifted block: B, BC, BCTR, BLR break out of the lifting loop "
                 "(B/BC after pushing their successors); BL does not")
    by = term.by_id()
    want_break = {"B", "BC", "BCTR", "BLR"}
    for i in sorted(want_break):
        a = by.get("PPC_INS_" + i)
        r.decide(a is not None and a["breaks"], "ppc|terminates|%s" % i, db.where(hb, a["line"]) if a else db.where(hb, term.line),
                 "%s does not end the block" % i)
    a = by.get("PPC_INS_BL")
    r.decide(a is None or not a["breaks"], "ppc|terminates|BL", db.where(hb, term.line), "BL must not end the block")
    a = by.get("PPC_INS_B")
    r.decide(a is not None and a["succ_pushes"] == 1, "ppc|successors|B", db.where(hb, term.line), "B must push exactly its target")
    a = by.get("PPC_INS_BC")
    r.decide(a is not None and a["succ_pushes"] == 2, "ppc|successors|BC", db.where(hb, term.line), "BC must push target and fall-through")


MANIFEST = {
    "technique": "static analysis: table agreement over match arms, abstract interpretation of handlers (effect signatures vs. manual-derived reference rows, widths, guard shapes)",
    "text": "Decides on every run structural necessary conditions of agreement with the MIPS32 and Power manuals: the "
            "delay-slot tables agree with one another and with the architectural set; mnemonics do not silently share a "
            "handler; every mnemonic with a reference row assigns/reads the architectural registers (HI/LO, $ra, lr, ctr), "
            "uses the signed or unsigned operator its meaning requires, accesses memory at the architectural width with the "
            "right extension and emits the required operation kinds; register tables are exact; widths are never "
            "definitely wrong (all 346 MIPS obligations are proved); conditional branches decide on the latched "
            "condition with complementary successors; no operand register is read after a possibly-aliasing write; "
            "rlwinm/slwi/lis are exact bit for bit for all (mb, me); a branch whose delay slot is missing does not fall "
            "through. It does not decide value-level arithmetic of lwl/lwr/swl/swr merging and accumulate carries.",
    "note": "Trusted: rustc nightly HIR; the reference rows in fv/props/c02.py transcribed from MIPS32 vol. II and Power "
            "ISA 2.07 book I keyed by capstone enumerators; ilshape transfer functions; bit-provenance evaluator. Known findings: PPC BDNZL is lifted as a nop; XER[CA] is consumed by addze but never produced.",
}


def reg_reads(e, out):
    if not ilshape.is_il(e):
        return out
    s = e[2]
    if s[0] == "opaque" and isinstance(s[1], str) and s[1].startswith("reg:"):
        out.add(s[1][4:])
    elif s[0] == "op":
        for a in s[2]:
            reg_reads(a, out)
    return out


def compatible(c1, c2):
    """Two operations can lie on one path unless, at the first point where their contexts differ, they sit in different
    alternatives of the same if / match (call and loop labels are sequential, not alternatives)."""
    for a, b in zip(c1, c2):
        if a != b:
            ha, hb = a.rsplit(":", 1)[0], b.rsplit(":", 1)[0]
            return not (ha == hb and a.startswith(("if@", "match@")))
    return True


def named_reads(e, names, out):
    if not ilshape.is_il(e):
        return out
    s = e[2]
    if s[0] == "scalar" and s[1]:
        nms = s[1] if isinstance(s[1], tuple) else (s[1],)
        if any(n in names for n in nms):
            out.add("named:" + "|".join(nms))
    elif s[0] == "op":
        for a in s[2]:
            named_reads(a, names, out)
    return out


def hazards(res, regnames=frozenset(), canon=None):
    """(write op, read op, written id, read id): an operand register is read by a later operation on the same path after
    another operand register - possibly the same architectural register - was written.  Ids are sets of alternatives;
    `canon` maps an alternative to 'named:<architectural register>' when it is a fixed register."""
    canon = canon or (lambda i: i)

    def alts(i):
        return {canon(x) for x in i.split("|")} if not i.startswith("named:") else {"named:" + x for x in i[6:].split("|")}

    out = []
    ops = res.ops
    for i, w in enumerate(ops):
        wid = w.get("dst_id")
        if not wid and w.get("dst"):
            nms = w["dst"] if isinstance(w["dst"], tuple) else (w["dst"],)
            if any(n in regnames for n in nms):
                wid = "named:" + "|".join(nms)
        if not wid or w["kind"] not in ("Assign", "Load"):
            continue
        ws = alts(wid)
        for r in ops[i + 1:]:
            if not compatible(w["ctx"], r["ctx"]):
                continue
            if "ends" in w:
                scope, br = w["ends"]
                if r["ctx"][:len(scope)] == scope and r["ctx"][:len(br)] != br:
                    continue
            reads = set()
            for f in ("src", "addr", "target"):
                if r.get(f) is not None:
                    reg_reads(r[f], reads)
                    named_reads(r[f], regnames, reads)
            for rid in sorted(reads):
                rs = alts(rid)
                # two fixed architectural registers are distinct unless they are the same; an operand may be any register
                if any(a != b and not (a.startswith("named:") and b.startswith("named:")) for a in ws for b in rs):
                    out.append((w, r, wid, rid))
    return out


def ext_of(e, names, out=None):
    """Extension operators applied directly to one of the named scalars."""
    out = [] if out is None else out
    if not ilshape.is_il(e):
        return out
    s = e[2]
    if s[0] == "op":
        if s[1] in ("Sext", "Zext") and ilshape.is_il(s[2][0]) and s[2][0][2][0] == "scalar" and s[2][0][2][1] in names:
            out.append(s[1])
        for a in s[2]:
            ext_of(a, names, out)
    return out


# handlers in which a later read of another operand register is architecturally harmless
HAZARD_OK = {
    ("ppc", "lwzu"): "Power ISA: lwzu with RA = RT is an invalid instruction form, so the loaded register never aliases the base",
}


def r9(db, rep, runs):
    r = rep.rule("R9", "K4", "operand snapshot: within one instruction's IL no operand register is read after another operand "
                 "register - which may be the same architectural register - has been written (stwu r1,-16(r1) must store the "
                 "old r1), except reviewed instruction forms where the two cannot alias")
    n = 0
    for arch in ("mips", "ppc"):
        for h in lifters.handlers_of(db, arch):
            res = runs.get(h)
            if res is None:
                continue
            hz = hazards(res)
            n += 1
            key = (arch, last_seg(h))
            if hz and key in HAZARD_OK:
                r.ok("%s|%s" % key, db.where(db.hir[h]), detail={"reviewed": HAZARD_OK[key]})
                continue
            w, rd, wid, rid = hz[0] if hz else (None, None, None, None)
            r.decide(not hz, "%s|%s" % key, db.where(db.hir[h], rd["line"]) if hz else db.where(db.hir[h]),
                     "%s writes operand register %s (line %s) and afterwards reads operand register %s, which may be the same "
                     "register" % (last_seg(h), (wid or "").split(").")[-1], w["line"] if w else "", (rid or "").split(").")[-1]))
    r.floor(90, "MIPS and PPC handlers")
