"""C04 — IL expression evaluation is exact fixed-width bit-vector arithmetic.

Decided here (structural necessary conditions): variant/arm agreement of all sibling functions
over `Expression` (R1), sort / zero-divisor guards dominate arithmetic (R2), operator core and
operand order of every `Constant` method (R3), bounded value-derived shift amounts (R4),
constructor/evaluator acceptance agreement (R5), result width and comparison polarity (R6),
constructors build their own variant in parameter order (R7), panic sites reachable from the
evaluator (R8). Not decided: numeric results (masks, rounding, wrap-around formulas).
"""
from armlib import arm_table, base_ty, fold, last_seg, main_match, unq, variants_of
from db import Cfg, callee, call_args, walk, local_of, int_lit, mir_callee, mir_calls, op_const_int
from mirterm import Terms, calls_in, params_of, show, strip_overflow, subterms, terms_of
import panics

EXPR = "il::expression::Expression"
CONST = "il::constant::Constant"

DERIVE_TRAITS = (
    "std::clone::Clone", "std::fmt::Debug", "std::cmp::PartialEq", "std::cmp::Eq", "std::cmp::PartialOrd",
    "std::cmp::Ord", "std::hash::Hash", "std::fmt::Display",
)

BINARY = ["Add", "Sub", "Mul", "Divu", "Modu", "Divs", "Mods", "And", "Or", "Xor", "Shl", "Shr", "AShr",
          "Cmpeq", "Cmpneq", "Cmplts", "Cmpltu"]
COMPARISONS = ["Cmpeq", "Cmpneq", "Cmplts", "Cmpltu"]
EXTENSIONS = ["Zext", "Sext", "Trun"]

# Reference: the num-bigint / std operator that is the arithmetic core of each Constant method
# (external identifiers), whether operands go through the signed view, whether operand order matters.
CORE = {
    "add": ("std::ops::Add::add", False, False),
    "sub": ("std::ops::Sub::sub", False, True),
    "mul": ("std::ops::Mul::mul", False, False),
    "divu": ("std::ops::Div::div", False, True),
    "modu": ("std::ops::Rem::rem", False, True),
    "divs": ("std::ops::Div::div", True, True),
    "mods": ("std::ops::Rem::rem", True, True),
    "and": ("std::ops::BitAnd::bitand", False, False),
    "or": ("std::ops::BitOr::bitor", False, False),
    "xor": ("std::ops::BitXor::bitxor", False, False),
    "shl": ("std::ops::Shl::shl", False, True),
    "shr": ("std::ops::Shr::shr", False, True),
    "ashr": ("std::ops::Shr::shr", False, True),
    "cmpeq": ("std::cmp::PartialEq::eq|std::cmp::PartialEq::ne", False, False),
    "cmpneq": ("std::cmp::PartialEq::eq|std::cmp::PartialEq::ne", False, False),
    "cmpltu": ("std::cmp::PartialOrd::lt|std::cmp::PartialOrd::gt", False, True),
    "cmplts": ("std::cmp::PartialOrd::lt|std::cmp::PartialOrd::gt", True, True),
}


def is_derived(b):
    return b.get("impl_trait") in DERIVE_TRAITS or "_serde" in b["def"] or "serde::" in (b.get("impl_trait") or "")


def run(db, rep, feat, tier):
    rep.explanation = (
        "Static rules over rustc HIR/MIR of lib/il/{constant,expression}.rs, lib/executor/{eval,state}.rs and every "
        "other function that matches over all Expression variants: per-variant arm agreement (operand order, "
        "same-named evaluator/constructor, every boxed operand visited, width function), sort and zero-divisor "
        "guards dominating every big-integer operator call on the MIR CFG, the resolved num-bigint operator each "
        "Constant method reaches and the parameter each of its operands derives from, signed view only for signed "
        "operators, value-derived shift amounts guarded by a width comparison, evaluator rejection atoms a subset of "
        "the constructor's, result width / comparison polarity, constructors building their own variant in "
        "parameter order, panic sites reachable from eval and the public Constant methods, and the derived builders "
        "rotl / sra bit for bit (bit provenance of the term they build for sampled widths and all constant amounts). "
        "Numeric results of the big-integer primitives themselves (wrap-around, rounding) are NOT decided."
    )
    variants = variants_of(db, EXPR)
    rep.anchor(variants is not None and len(variants) >= 23, "enum il::expression::Expression with >= 23 variants")
    vnames = [last_seg(v) for v, _ in variants]
    vinfo = {last_seg(v): info for v, info in variants}
    r1(db, rep, variants, vinfo)
    r7(db, rep, vinfo)
    r2_r3_r6(db, rep)
    r4(db, rep)
    r4b(db, rep)
    r9(db, rep)
    r5(db, rep)
    r8(db, rep)
    r10(db, rep, tier)


def r10(db, rep, tier):
    """Derived builders, bit for bit: the IL term Expression::rotl / Expression::sra build for a given width and a constant
    amount is evaluated in the bit-provenance domain (which operand bit reaches which result bit)."""
    import bitprov
    import ilshape
    r = rep.rule("R10", "K9", "derived builders agree with their meaning for every sampled width (powers of two and others, 1..128) and "
                 "every constant amount 0..width: rotl(x, s)[i] = x[(i - s) mod w]; sra(x, s)[i] = x[i + s] below the top and the sign "
                 "bit x[w-1] above")
    sh = ilshape.Shape(db)
    widths = [1, 2, 3, 5, 7, 8, 12, 16, 24, 31, 32, 33, 48, 63, 64] + ([65, 80, 96, 127, 128] if tier == "thorough" else [65, 128])
    for name in ("rotl", "sra"):
        f = "il::expression::Expression::" + name
        rep.anchor(f in db.hir, f)
        bad, undecided, n = None, 0, 0
        for w in widths:
            amounts = range(0, w + 1) if w <= 33 or tier == "thorough" else sorted({0, 1, 2, w // 2, w - 8, w - 1, w} & set(range(0, w + 1)))
            for k in amounts:
                res = sh.run(f, args={0: ilshape.opaque(w, "x"), 1: ilshape.E(w, ("const", k % (1 << w)), "G")})
                got = bitprov.bits(res.ret) if ilshape.is_il(res.ret) else None
                kk = k % (1 << w)
                if name == "rotl":
                    want = [("x", (i - kk) % w) for i in range(w)]
                    if kk > w:
                        continue
                else:
                    want = [("x", i + kk) if i + kk < w else ("x", w - 1) for i in range(w)]
                n += 1
                if got is None or any(b is None for b in got):
                    undecided += 1
                elif got != want and bad is None:
                    bad = (w, kk, got, want)
        if bad:
            r.bad("%s|bits" % name, db.where(db.hir[f]), "%s(x:%d, %d) yields %s; the meaning is %s" % (
                name, bad[0], bad[1], bitprov.show(bad[2]), bitprov.show(bad[3])))
        elif undecided * 2 > n:
            r.open("%s|bits" % name, db.where(db.hir[f]), "%d of %d (width, amount) pairs could not be evaluated" % (undecided, n))
        else:
            r.ok("%s|bits" % name, db.where(db.hir[f]), detail={"pairs": n, "undecided_pairs": undecided})


# ------------------------------------------------------------------------------------ R1
def siblings(db):
    out = []
    for b in db.hir.values():
        if is_derived(b) and b.get("impl_trait") != "std::fmt::Display":
            continue
        m = main_match(b, EXPR)
        if m is None:
            continue
        arms = arm_table(m)
        nv = sum(len(a.variants) for a in arms)
        if nv >= 20:
            out.append((b, m, arms))
    return out


def classify(arms):
    n_const = n_ctor = n_self = 0
    for a in arms:
        cs = a.callees()
        if any(c.startswith(CONST + "::") for c in cs):
            n_const += 1
        if any(c.startswith(EXPR + "::") and last_seg(c)[0].islower() for c in cs):
            n_ctor += 1
    if n_const >= 15:
        return "evaluator"
    if n_ctor >= 15:
        return "rebuilder"
    return "other"


def r1(db, rep, variants, vinfo):
    r = rep.rule("R1", "K4", "sibling functions over Expression treat every variant alike: every variant has an arm; "
                 "or-pattern alternatives bind the same positions; evaluator/rebuilder arms call the same-named "
                 "Constant method / Expression constructor with operand bindings in declared order, each exactly "
                 "once; traversals visit every boxed operand; bits() gives 1 for comparisons, the width field for "
                 "extensions, an operand's width otherwise (never the Ite condition's)")
    sibs = siblings(db)
    kinds = {}
    const_methods = {last_seg(k) for k in db.hir if k.startswith(CONST + "::")}
    ctor_fns = {last_seg(k) for k in db.hir if k.startswith(EXPR + "::")}
    for b, m, arms in sibs:
        fn = b["def"]
        rep.analysed(fn)
        kind = classify(arms)
        if fn == EXPR + "::bits":
            kind = "bits"
        if b.get("impl_trait") == "std::fmt::Display":
            kind = "display"
        kinds.setdefault(kind, []).append(fn)
        covered = set()
        for a in arms:
            for v in a.variants:
                covered.add(last_seg(v))
        for a in arms:
            if a.wild:
                r.bad("%s|wildcard" % fn, db.where(b, a.line),
                      "wildcard arm in a function that must treat every Expression variant explicitly")
        for v in vinfo:
            if v not in covered and not any(a.wild for a in arms):
                r.bad("%s|%s|missing" % (fn, v), db.where(b), "no arm for variant %s" % v)
        for a in arms:
            names, consistent = a.bindings()
            vs = [last_seg(v) for v in a.variants]
            key = "%s|%s" % (fn, "+".join(vs))
            if not consistent:
                r.bad(key + "|altbind", db.where(b, a.line),
                      "or-pattern alternatives bind the same names at different operand positions")
                continue
            boxed = {}
            for v in vs:
                boxed[v] = [i for i, f in enumerate(vinfo[v]["fields"]) if "Box<" in f["ty"]]
            order = a.use_order()
            if kind in ("evaluator", "rebuilder"):
                for v in vs:
                    nb = len(boxed[v])
                    if v in ("Scalar", "Constant"):
                        r.ok(key, db.where(b, a.line))
                        continue
                    cs = a.callees()
                    if kind == "evaluator" and v == "Ite":
                        # if eval(cond) is one -> eval(then) else eval(else_)
                        ok = ite_eval_shape(a)
                        r.decide(ok, key, db.where(b, a.line),
                                 "Ite must select operand 1 when the condition evaluates to one, operand 2 otherwise")
                        continue
                    pool = const_methods if kind == "evaluator" else ctor_fns
                    prefix = CONST if kind == "evaluator" else EXPR
                    used = [last_seg(c) for c in cs if c.startswith(prefix + "::") and last_seg(c) in pool
                            and last_seg(c) not in ("bits", "clone")]
                    want = fold(v)
                    same = [u for u in used if fold(u) == want]
                    if want in {fold(p) for p in pool} and not same:
                        r.bad(key, db.where(b, a.line),
                              "variant %s is handled by %s although %s::%s exists" % (v, used, prefix, want))
                        continue
                    # operand order: bindings used in declared order, each boxed operand exactly once
                    pos = [p[0] for p in order if p and isinstance(p[0], int)]
                    boxed_pos = [p for p in pos if p in boxed[v]]
                    if boxed_pos != boxed[v]:
                        r.bad(key, db.where(b, a.line),
                              "operands of %s used in order %s, declared order is %s" % (v, boxed_pos, boxed[v]))
                        continue
                    # strict evaluation: no operand is evaluated conditionally (errors of every operand surface)
                    cond_nodes = [x for x in walk(a.body) if x.get("k") in ("If", "Loop", "Closure")
                                  or (x.get("k") == "Match" and x.get("src") != "Try")]
                    if cond_nodes and kind == "evaluator":
                        r.bad(key, db.where(b, cond_nodes[0]["l"]),
                              "evaluation of %s is conditional: an operand (and its sort / division error) may be "
                              "skipped" % v)
                        continue
                    # extension width operand must be passed through
                    if v in EXTENSIONS and 0 not in pos:
                        r.bad(key, db.where(b, a.line), "width field of %s is not passed on" % v)
                        continue
                    r.ok(key, db.where(b, a.line), detail={"callees": same, "operand_order": pos})
            elif kind == "bits":
                for v in vs:
                    bits_rule(r, db, b, a, v, key, names, boxed)
            elif kind == "display":
                r.ok(key, db.where(b, a.line))
            else:
                # traversal: every boxed operand of every alternative is visited
                pos = {p[0] for p in order if p}
                for v in vs:
                    miss = [i for i in boxed[v] if i not in pos]
                    if miss and not arm_is_constant(a):
                        r.bad(key, db.where(b, a.line), "operand(s) %s of %s are never visited" % (miss, v))
                    else:
                        r.ok(key, db.where(b, a.line), detail={"visited": sorted(pos)})
    rep.anchor(len(kinds.get("evaluator", [])) >= 1, "an evaluator over Expression (executor::eval::eval)")
    rep.anchor(len(kinds.get("rebuilder", [])) >= 2, "two rebuilders over Expression (map_to_expression, symbolize)")
    rep.anchor(len(kinds.get("other", [])) >= 3, "traversals over Expression (all_constants, scalars, scalars_mut)")
    rep.anchor(len(kinds.get("bits", [])) == 1, "Expression::bits")
    r.floor(120, "8 sibling functions x 23 variants (or-patterns grouped)")
    rep.notes.append({"R1_siblings": kinds})


def arm_is_constant(a):
    b = unq(a.body)
    return b.get("k") in ("Lit",) or (b.get("k") == "Block" and not b.get("stmts") and "expr" not in b)


def ite_eval_shape(a):
    names, _ = a.bindings()

    def positions(n):
        return [names[x["res"]["local"]][0] for x in walk(n)
                if x.get("k") == "Path" and x.get("res", {}).get("local") in names]

    # the selecting conditional: the one `if` of the arm whose condition reads the condition operand; the two value
    # operands are mentioned only inside its branches (directly evaluated there, or selected there and evaluated after)
    ifs = [x for x in walk(a.body) if x.get("k") == "If" and 0 in positions(x["c"])]
    if len(ifs) != 1:
        return False
    b = ifs[0]
    inside = len([p for p in positions(b["then"]) + positions(b.get("else", {})) if p in (1, 2)])
    if len([p for p in positions(a.body) if p in (1, 2)]) != inside:
        return False

    cond = b["c"]
    calls_ = [callee(x) for x in walk(cond)]
    is_one = any(c and c.endswith("::is_one") for c in calls_)
    is_zero = any(c and c.endswith("::is_zero") for c in calls_)
    neg = any(x.get("k") == "Unary" and x.get("op") == "Not" for x in walk(cond))
    pc, pt, pe = positions(cond), positions(b["then"]), positions(b.get("else", {}))
    if pc != [0]:
        return False
    truthy = (is_one and not neg) or (is_zero and neg)
    falsy = (is_zero and not neg) or (is_one and neg)
    if truthy:
        return pt == [1] and pe == [2]
    if falsy:
        return pt == [2] and pe == [1]
    return False


def bits_rule(r, db, b, a, v, key, names, boxed):
    body = unq(a.body)
    where = db.where(b, a.line)
    key = key + "|" + v
    if v in COMPARISONS:
        r.decide(int_lit(body) == 1, key, where, "width of comparison %s must be the literal 1" % v)
        return
    if v in EXTENSIONS:
        ok = body.get("k") == "Path" and names.get(body["res"].get("local")) == (0,)
        r.decide(ok, key, where, "width of %s must be its width field" % v)
        return
    # <binding>.bits()
    ok = False
    pos = None
    if body.get("k") == "MethodCall" and body["name"] == "bits":
        l = unq(body["recv"])
        if l.get("k") == "Path":
            pos = names.get(l["res"].get("local"))
            if pos is not None:
                if v == "Ite":
                    ok = pos[0] in (1, 2)
                elif v in ("Scalar", "Constant"):
                    ok = pos[0] == 0
                else:
                    ok = pos[0] in (0, 1)
    r.decide(ok, key, where, "width of %s must be the width of a value operand (got operand %s)" % (v, pos))


# ------------------------------------------------------------------------------------ R7
def r7(db, rep, vinfo):
    r = rep.rule("R7", "K4", "each Expression constructor builds the variant of its own name with its parameters "
                 "in order, each boxed exactly once; scalar substitution replaces only equal scalars")
    n = 0
    for v, info in vinfo.items():
        fn = "%s::%s" % (EXPR, fold(v))
        b = db.hir.get(fn)
        if b is None:
            continue
        rep.analysed(fn)
        n += 1
        params = [p.get("hid") for p in b["params"]]
        built = []
        for x in walk(b["body"]):
            if x.get("k") == "Call" and x.get("fn", {}).get("ctor_of", "").startswith(EXPR + "::"):
                built.append(x)
        key = "%s|builds" % fn
        if len(built) != 1:
            r.bad(key, db.where(b), "constructor builds %d Expression variants, expected exactly one" % len(built))
            continue
        x = built[0]
        bv = last_seg(x["fn"]["ctor_of"])
        if bv != v:
            r.bad(key, db.where(b, x["l"]), "constructor `%s` builds variant %s" % (fold(v), bv))
            continue
        arg_params = []
        for a in x["args"]:
            a = unq(a)
            if a.get("k") == "Call" and (a.get("fn", {}).get("def") or "").endswith("Box::<T>::new"):
                a = unq(a["args"][0])
            arg_params.append(local_of(a))
        if arg_params != params:
            r.bad(key, db.where(b, x["l"]), "variant operands are not the parameters in declared order")
        else:
            r.ok(key, db.where(b, x["l"]), detail={"variant": bv})
    r.floor(21, "21 operator constructors of Expression")
    # replace_scalar: Some(replacement) only under `expr_scalar == scalar`
    b = db.hir.get(EXPR + "::replace_scalar")
    if b is not None:
        rep.analysed(b["def"])
        # on the MIR of the replacement closure: every Some(..) it returns sits on the true side of an equality test between
        # the visited node's scalar and the captured scalar (if-let chain, guarded match arm, ... all lower to this)
        from db import Cfg
        from mirterm import Terms, subterms as _sub
        ok = False
        for cdef in db.closures_of(EXPR + "::replace_scalar"):
            cb = db.mir.get(cdef)
            if cb is None:
                continue
            ctm = Terms(cb, db)
            ccfg = Cfg(cb)
            somes = [i for i, bb in enumerate(cb["blocks"]) for s_ in bb["s"]
                     if str(s_.get("rv", {}).get("variant", "")).endswith("::Some") and s_.get("d") == [0]]
            tests = []
            for j, bb in enumerate(cb["blocks"]):
                t = bb["t"]
                if t["k"] != "SwitchInt":
                    continue
                d = ctm.operand(t["discr"])
                # the whole scalars are compared (PartialEq on Scalar), not a projection of them such as the width
                is_eq = d[0] == "call" and last_seg(d[1]) == "eq" and len(d[2]) == 2 and "Scalar" in str(d[3] if len(d) > 3 else "")

                def plain(x, kind):
                    while isinstance(x, tuple) and x and x[0] == "field":
                        x = x[1]
                    return isinstance(x, tuple) and bool(x) and ((kind == "node" and x[0] == "variant" and x[2] == "Scalar") or
                                                                 (kind == "captured" and x[0] == "upvar"))
                if is_eq and ((plain(d[2][0], "node") and plain(d[2][1], "captured")) or (plain(d[2][1], "node") and plain(d[2][0], "captured"))):
                    false_t = [tg for v_, tg in t["targets"] if v_ == 0] or [None]
                    tests.append((j, false_t[0] if false_t[0] is not None else None, t))
            if not somes:
                continue
            ok = True
            for sb_ in somes:
                guarded = False
                for j, ft, t in tests:
                    if ft is None:
                        # `switch [1 -> true side] otherwise false side`
                        ft = t["otherwise"]
                    if ccfg.dominates(j, sb_) and sb_ not in ccfg.reachable(ft, avoid=[j]):
                        guarded = True
                ok = ok and guarded
        r.decide(ok, "replace_scalar|guard", db.where(b), "replacement must be produced only for the equal scalar")


# ------------------------------------------------------------------------------------ R2/R3/R6
def const_methods(db):
    out = []
    for k, b in db.mir.items():
        if not k.startswith(CONST + "::") or b["dk"] == "Closure":
            continue
        h = db.hir.get(k)
        if h is None:
            continue
        if h.get("inputs") == ["&" + CONST, "&" + CONST] and h.get("output", "").startswith("std::result::Result<" + CONST):
            out.append(k)
    return sorted(out)


def is_big_op(t):
    fg = t.get("fg", "")
    f = t.get("f", "")
    if not (f.startswith("std::ops::") or f.startswith("std::cmp::Partial")):
        return False
    return "num_bigint::" in fg


def error_blocks(body, variant):
    out = []
    for i, b in enumerate(body["blocks"]):
        for s in b["s"]:
            rv = s.get("rv")
            if rv and rv["k"] == "Aggregate" and rv.get("variant") == variant:
                out.append(i)
    return out


def guard_switch(cfg, err_block):
    """The SwitchInt block that decides whether err_block is reached, and its other successor."""
    x = err_block
    seen = set()
    while True:
        ps = cfg.pred[x]
        if len(ps) != 1 or x in seen:
            return None
        seen.add(x)
        p = ps[0]
        if cfg.blocks[p]["t"]["k"] == "SwitchInt":
            others = [s for s in cfg.succ[p] if s != x]
            return p, x, others
        x = p


def bits_origin(t):
    """Which parameter's width a term denotes: ('bits', n) if t is Constant::bits(param n) or field .1 of param n."""
    if t[0] == "call" and t[1] == CONST + "::bits" and t[2] and t[2][0][0] == "param":
        return t[2][0][1]
    if t[0] == "field" and t[2] == ".1" and t[1][0] == "param":
        return t[1][1]
    return None


def r2_r3_r6(db, rep):
    r2 = rep.rule("R2", "K6", "in every binary Constant method the Sort error is decided by comparing the two operand "
                  "widths and its non-error successor dominates every big-integer operator call and result "
                  "construction; in divu/modu/divs/mods DivideByZero is decided by is_zero(rhs) and its non-error "
                  "successor dominates Div::div / Rem::rem")
    r3 = rep.rule("R3", "K3", "each Constant method reaches the big-integer operator of its meaning (reference table "
                  "keyed by std::ops / std::cmp traits), its first operand derives from self and its second from rhs "
                  "where order matters, and exactly the signed operators go through the signed view")
    r6 = rep.rule("R6", "K6", "arithmetic results are built at self's width; comparisons build 1-bit constants and the "
                  "branch taken when the relation holds builds 1")
    methods = const_methods(db)
    rep.anchor(len(methods) >= 17, "17 binary Constant methods (found %d)" % len(methods))
    signed_view = CONST + "::to_bigint"
    for fn in methods:
        body = db.mir[fn]
        rep.analysed(fn)
        name = last_seg(fn)
        cfg = Cfg(body)
        tm = Terms(body, db)
        where = db.where(body)
        # ---- R2 sort guard
        eb = error_blocks(body, "Error::Sort")
        if len(eb) != 1:
            r2.bad("%s|sort" % fn, where, "expected exactly one Error::Sort construction, found %d" % len(eb))
            continue
        gs = guard_switch(cfg, eb[0])
        if gs is None:
            r2.bad("%s|sort" % fn, where, "Error::Sort is not decided by a single conditional")
            continue
        sw, _side, others = gs
        cond = tm.operand(body["blocks"][sw]["t"]["discr"])
        okc = False
        if cond[0] == "bin" and cond[1] in ("Ne", "Eq"):
            a, b_ = bits_origin(cond[2]), bits_origin(cond[3])
            okc = {a, b_} == {1, 2}
        if not okc:
            r2.bad("%s|sort" % fn, db.where(body, body["blocks"][sw]["t"]["l"]),
                   "Sort error is not decided by comparing self's and rhs's widths: %s" % show(cond))
            continue
        safe = others[0] if len(others) == 1 else None
        work = []
        closures = [db.mir[c] for c in db.closures_of(fn)]
        for i, t in mir_calls(body):
            c = mir_callee(t)
            if is_big_op(t) or c in (CONST + "::new_big", CONST + "::new", signed_view) or "::map" in c or "unwrap_or" in c:
                work.append(i)
        bad = [i for i in work if safe is None or not cfg.dominates(safe, i)]
        r2.decide(not bad, "%s|sort" % fn, where,
                  "arithmetic at MIR block(s) %s is reachable without passing the width comparison" % bad,
                  detail={"guard": show(cond), "guarded_calls": len(work)})
        # ---- R2 zero divisor
        core, signed, ordered = CORE.get(name, (None, None, None))
        if name in ("divu", "modu", "divs", "mods"):
            zb = error_blocks(body, "Error::DivideByZero")
            if len(zb) != 1:
                r2.bad("%s|zero" % fn, where, "expected exactly one Error::DivideByZero construction, found %d" % len(zb))
            else:
                gz = guard_switch(cfg, zb[0])
                okz = False
                if gz is not None:
                    zsw, zside, zothers = gz
                    zc = tm.operand(body["blocks"][zsw]["t"]["discr"])
                    if zc[0] == "call" and zc[1] == CONST + "::is_zero" and params_of(zc) == {2}:
                        # error side must be the `true` side
                        tgt = dict((v, bb) for v, bb in body["blocks"][zsw]["t"]["targets"])
                        true_side = body["blocks"][zsw]["t"]["otherwise"]
                        if tgt.get(0) is not None and reaches_first(cfg, true_side, zb[0]) and len(zothers) == 1:
                            divs_ = [i for i, t in mir_calls(body) if is_big_op(t) and t["f"] in ("std::ops::Div::div", "std::ops::Rem::rem")]
                            okz = bool(divs_) and all(cfg.dominates(zothers[0], i) for i in divs_)
                r2.decide(okz, "%s|zero" % fn, where,
                          "division is not dominated by the false side of rhs.is_zero()")
        elif error_blocks(body, "Error::DivideByZero"):
            r2.bad("%s|zero" % fn, where, "non-division operator reports DivideByZero")
        # ---- R3 operator core
        if core is None:
            r3.open("%s|core" % fn, where, "no reference row for Constant::%s" % name)
            continue
        wanted = core.split("|")
        sites = []
        bodies = [(body, tm)] + [(c, closure_terms(db, body, tm, c)) for c in closures]
        for (bd, tmm) in bodies:
            for i, t in mir_calls(bd):
                if t.get("f") in wanted and is_big_op(t):
                    sites.append((bd, tmm, i, t))
        if not sites:
            r3.bad("%s|core" % fn, where, "Constant::%s never reaches %s on a big integer" % (name, core))
            continue
        okk = True
        msg = ""
        n_ordered = 0
        for (bd, tmm, i, t) in sites:
            a0 = tmm.operand(t["args"][0])
            a1 = tmm.operand(t["args"][1])
            p0, p1 = params_of(a0), params_of(a1)
            if ordered and t["f"] not in ("std::cmp::PartialOrd::gt",):
                # rhs operand may mix in self (e.g. its width) but must contain rhs; lhs must not contain rhs
                if 1 in p0 and 2 not in p0 and 2 in p1:
                    n_ordered += 1
                if 2 in p0 and 1 not in p0:
                    okk = False
                    msg = "operand order at %s: first operand derives from rhs (params %s), second from %s" % (
                        db.where(bd, t["l"]), sorted(p0), sorted(p1))
            uses_signed = any(c[1] == signed_view for c in calls_in(a0)) and any(c[1] == signed_view for c in calls_in(a1))
            big_int = "num_bigint::BigInt" in t.get("fg", "")
            if signed and not (uses_signed and big_int):
                okk = False
                msg = "signed operator %s does not operate on the signed view of both operands" % name
            if not signed and (big_int or uses_signed) and name not in ("divs", "mods", "cmplts"):
                okk = False
                msg = "unsigned operator %s operates on the signed view" % name
        if okk and ordered and n_ordered == 0 and not any(t["f"].endswith("::gt") for (_b, _t, _i, t) in sites):
            okk = False
            msg = "no %s site takes its first operand from self and its second from rhs" % core
        r3.decide(okk, "%s|core" % fn, where, msg, detail={"core": core, "sites": len(sites)})
        # ---- R6 result width / polarity
        if fold(name) in [fold(c) for c in COMPARISONS]:
            polarity(db, r6, fn, body, cfg, tm, name)
        else:
            news = []
            for i, t in mir_calls(body):
                c_ = mir_callee(t) or ""
                if c_ == CONST + "::new_big":
                    news.append(tm.operand(t["args"][1]))
                elif c_.startswith(CONST + "::") and c_ in db.mir and c_ != fn:
                    # a private constructor helper that builds the result at the width it is given
                    hb_ = db.mir[c_]
                    htm_ = terms_of(db, c_, {})
                    ws_ = [htm_.operand(t2["args"][1]) for i2, t2 in mir_calls(hb_) if mir_callee(t2) == CONST + "::new_big"]
                    ks_ = {w_[1] for w_ in ws_ if isinstance(w_, tuple) and w_[0] == "param"}
                    if ws_ and len(ks_) == 1 and all(isinstance(w_, tuple) and w_[0] == "param" for w_ in ws_):
                        k_ = ks_.pop()
                        if k_ - 1 < len(t["args"]):
                            news.append(tm.operand(t["args"][k_ - 1]))
            okw = bool(news) and all(bits_origin(w) == 1 for w in news)
            r6.decide(okw, "%s|width" % fn, where,
                      "result is not constructed at self's width: %s" % [show(w) for w in news])


def closure_terms(db, parent, ptm, cbody):
    """Terms for a closure body with captured operands resolved in the parent, and the closure
    argument standing for the receiver of the adaptor call (Option::map etc.)."""
    env = None
    recv = None
    for i, b in enumerate(parent["blocks"]):
        for s in b["s"]:
            rv = s.get("rv")
            if rv and rv["k"] == "Aggregate" and rv.get("closure") == cbody["def"]:
                env = [ptm.operand(o) for o in rv["ops"]]
                cl_local = s["d"][0]
                # find the call taking this closure
                for j, t in mir_calls(parent):
                    for a in t["args"]:
                        pl = a.get("m") or a.get("c")
                        if pl and pl[0] == cl_local and t["args"]:
                            recv = ptm.operand(t["args"][0])
    tm = Terms(cbody, db, env=env)
    tm.closure_arg = recv
    return tm


def reaches_first(cfg, start, target):
    return target in cfg.reachable(start)


def polarity(db, r6, fn, body, cfg, tm, name):
    where = db.where(body)
    # the decisive switch: on the result of eq / ne / lt / gt
    found = False
    for i, b in enumerate(body["blocks"]):
        t = b["t"]
        if t["k"] != "SwitchInt":
            continue
        cond = tm.operand(t["discr"])
        if cond[0] != "call" or not (cond[1].startswith("std::cmp::") or "PartialOrd" in cond[1] or "PartialEq" in cond[1]):
            continue
        rel = last_seg(cond[1])
        tg = dict((v, bb) for v, bb in t["targets"])
        false_side, true_side = tg.get(0), t["otherwise"]
        if false_side is None:
            continue
        found = True

        def built(side, other):
            vals = set()
            mine = cfg.reachable(side)
            theirs = cfg.reachable(other)
            for j, ct in mir_calls(body):
                if j in mine and j not in theirs and mir_callee(ct) == CONST + "::new":
                    vals.add((op_const_int(ct["args"][0]), op_const_int(ct["args"][1])))
            return vals

        tv, fv = built(true_side, false_side), built(false_side, true_side)
        holds_true = {"eq": name == "cmpeq", "ne": name == "cmpneq", "lt": True, "gt": True}.get(rel)
        if holds_true is None:
            r6.open("%s|polarity" % fn, where, "unrecognised relation %s" % rel)
            return
        want_t = {(1, 1)} if holds_true else {(0, 1)}
        want_f = {(0, 1)} if holds_true else {(1, 1)}
        r6.decide(tv == want_t and fv == want_f, "%s|polarity" % fn, where,
                  "when %s holds the method builds %s, otherwise %s (expected %s / %s)" % (rel, tv, fv, want_t, want_f),
                  detail={"relation": rel})
    if not found:
        r6.bad("%s|polarity" % fn, where, "no decisive comparison found")


# ------------------------------------------------------------------------------------ R4
def r4(db, rep):
    r = rep.rule("R4", "K9", "in Constant::{shl,shr,ashr} every big-integer left shift, and every usize subtraction, "
                 "whose amount derives from the shift *value* is dominated by a comparison of that amount with the "
                 "operand width, or the amount passed an Option::filter whose predicate is that comparison (no value "
                 "causes an unbounded allocation or an underflow)")
    for name in ("shl", "shr", "ashr"):
        fn = "%s::%s" % (CONST, name)
        body = db.mir.get(fn)
        rep.anchor(body is not None, fn)
        ptm = Terms(body, db)
        units = [(body, ptm, False)]
        for cdef in db.closures_of(fn):
            cb = db.mir[cdef]
            units.append((cb, closure_terms(db, body, ptm, cb), True))
        for (cb, tm, is_closure) in units:
            cfg = Cfg(cb)
            rep.analysed(cb["def"])

            def derived(t):
                for s in subterms(t):
                    if s[0] == "carg":
                        return True
                    if not is_closure and s[0] == "call" and s[1].endswith("to_usize") and 2 in params_of(s):
                        return True
                return False

            def prefiltered(t):
                """amount flows out of Option::filter(_, |a| a < width(self))"""
                for s in subterms(t):
                    if s[0] == "carg":
                        for c in calls_in(s[2]) if isinstance(s[2], tuple) else ():
                            if c[1].endswith("Option::<T>::filter") and len(c[2]) == 2 and c[2][1][0] == "closure":
                                fdef = c[2][1][1]
                                fb = db.mir.get(fdef)
                                if fb is None:
                                    continue
                                ftm = closure_terms(db, body, ptm, fb)
                                ret = ftm.local(0)
                                if ret[0] == "bin" and ret[1] in ("Lt", "Le") and ret[2][0] == "carg" \
                                        and bits_origin(ret[3]) == 1:
                                    return True
                                if ret[0] == "bin" and ret[1] in ("Gt", "Ge") and ret[3][0] == "carg" \
                                        and bits_origin(ret[2]) == 1:
                                    return True
                return False

            guards = []
            for i, b in enumerate(cb["blocks"]):
                t = b["t"]
                if t["k"] == "SwitchInt":
                    c = tm.operand(t["discr"])
                    if c[0] == "bin" and c[1] in ("Ge", "Gt", "Lt", "Le"):
                        sides = [c[2], c[3]]
                        if any(derived(s) for s in sides) and any(bits_origin(s) == 1 for s in sides):
                            guards.append((i, c))
            sens = []
            for i, t in mir_calls(cb):
                if t.get("f") == "std::ops::Shl::shl" and "num_bigint" in t.get("fg", ""):
                    amt = tm.operand(t["args"][1])
                    if derived(amt):
                        sens.append((i, t["l"], "big-integer << value-derived amount", amt))
            for i, b in enumerate(cb["blocks"]):
                t = b["t"]
                if t["k"] == "Assert" and t["ak"] == "Overflow" and t["detail"]["op"] == "Sub":
                    bterm = tm.operand(t["detail"]["b"])
                    if derived(bterm):
                        sens.append((i, t["l"], "usize subtraction of a value-derived amount", bterm))
            for n, (i, line, what, amt) in enumerate(sens):
                dominated = prefiltered(amt)
                for (g, c) in guards:
                    for s in cfg.succ[g]:
                        if (cfg.dominates(s, i) and len(cfg.pred[s]) == 1) and in_range_side(cb, g, c, s, derived):
                            dominated = True
                r.decide(dominated, "%s|%s|%d" % (cb["def"], what, n), db.where(cb, line),
                         "%s is not guarded by a comparison with the operand width" % what)
    r.floor(2, "the `<<` in Constant::shl and the fill shift in Constant::ashr")


def in_range_side(cb, g, c, s, derived):
    t = cb["blocks"][g]["t"]
    tg = dict((v, bb) for v, bb in t["targets"])
    false_side, true_side = tg.get(0), t["otherwise"]
    op, a, b = c[1], c[2], c[3]
    arg_left = derived(a)
    true_means_in_range = op in ("Lt", "Le") if arg_left else op in ("Gt", "Ge")
    # Le / Ge admit amount == width: `<< width` is bounded and width - amount = 0, both harmless
    return s == (true_side if true_means_in_range else false_side)


def r4b(db, rep):
    r = rep.rule("R4b", "K9", "no Constant operator narrows an operand-derived integer (value, shift amount, width) "
                 "with an `as` cast: a truncated amount loses saturation")
    from mirterm import narrowing_casts, terms_of, bodies_under
    cache = {}
    n = 0
    for fn in const_methods(db) + [CONST + "::zext", CONST + "::sext", CONST + "::trun", CONST + "::trim_value",
                                   CONST + "::to_bigint"]:
        if fn not in db.mir:
            continue
        for d in bodies_under(db, fn):
            body = db.mir[d]
            tm = terms_of(db, d, cache)
            bad = []
            for i, b in enumerate(body["blocks"]):
                for s in b["s"]:
                    rv = s.get("rv")
                    if rv and rv["k"] == "Cast" and rv.get("ck", "").startswith("IntToInt"):
                        t = tm.rvalue(rv, 10)
                        if narrowing_casts(t)[:1] == [t] or (narrowing_casts(t) and t in narrowing_casts(t)):
                            bad.append((s["l"], t))
            n += 1
            r.decide(not bad, "%s|narrowing" % d, db.where(body, bad[0][0] if bad else None),
                     "narrowing integer cast %s" % (show(bad[0][1]) if bad else ""))
    r.floor(17, "17 binary Constant methods")


def r9(db, rep):
    r = rep.rule("R9", "K9", "a 64-bit all-ones literal used as a constant of a non-literal width W (lib/il) is "
                 "dominated by the true side of `W <= 64`: wider operands need a big-integer mask")
    n = 0
    for d, body in db.mir.items():
        if not body["file"].endswith(("lib/il/expression.rs", "lib/il/constant.rs")):
            continue
        tm = None
        cfg = None
        k = 0
        for i, t in mir_calls(body):
            c = mir_callee(t)
            if c not in ("il::expr_const", "il::const_", CONST + "::new") or len(t["args"]) != 2:
                continue
            v = op_const_int(t["args"][0])
            if v != 0xFFFFFFFFFFFFFFFF:
                continue
            tm = tm or Terms(body, db)
            cfg = cfg or Cfg(body)
            w = tm.operand(t["args"][1])
            key = "%s|allones|%d" % (d, k)
            k += 1
            n += 1
            if w[0] == "const":
                r.decide(w[1] <= 64, key, db.where(body, t["l"]), "all-ones u64 literal at literal width %d" % w[1])
                continue
            guarded = False
            for j, b in enumerate(body["blocks"]):
                tt = b["t"]
                if tt["k"] != "SwitchInt":
                    continue
                cnd = tm.operand(tt["discr"])
                if cnd[0] == "bin" and cnd[1] in ("Le", "Lt") and cnd[2] == w and cnd[3][0] == "const" and \
                        (cnd[3][1] <= 64 if cnd[1] == "Le" else cnd[3][1] <= 65):
                    tg = dict((vv, bb) for vv, bb in tt["targets"])
                    true_side = tt["otherwise"]
                    if tg.get(0) != true_side and cfg.dominates(true_side, i) and len(cfg.pred[true_side]) == 1:
                        guarded = True
            r.decide(guarded, key, db.where(body, t["l"]),
                     "0xffff_ffff_ffff_ffff is used as the all-ones constant of width %s without a dominating "
                     "`width <= 64` test (wrong mask above 64 bits)" % show(w))
    r.floor(1, "the sign-fill mask in Expression::sra")


# ------------------------------------------------------------------------------------ R5
def rejection_atoms(db, fn, width_param, src_param, src_is_expr):
    body = db.mir[fn]
    cfg = Cfg(body)
    tm = Terms(body, db)
    atoms = set()
    ebs = error_blocks(body, "Error::Sort")
    if not ebs:
        return None
    # all switches from which an Error::Sort block is reachable but not all successors reach it equally
    err_reach = set()
    for e in ebs:
        err_reach.add(e)
    for i, b in enumerate(body["blocks"]):
        t = b["t"]
        if t["k"] != "SwitchInt":
            continue
        succs = cfg.succ[i]
        reach = [any(e in cfg.reachable(s) for e in ebs) for s in succs]
        if not any(reach):
            continue
        c = tm.operand(t["discr"])
        atoms.add(normalise_atom(c, width_param, src_param))
    return atoms


def normalise_atom(c, wp, sp):
    def side(t):
        if t == ("param", wp):
            return "W"
        if t[0] == "call" and last_seg(t[1]) == "bits" and params_of(t) == {sp}:
            return "S"
        if t[0] == "field" and t[2] == ".1" and t[1] == ("param", sp):
            return "S"
        if t[0] == "const":
            return str(t[1])
        return None

    if c[0] == "bin":
        a, b = side(c[2]), side(c[3])
        if a and b:
            op = c[1]
            flip = {"Le": "Ge", "Ge": "Le", "Lt": "Gt", "Gt": "Lt", "Eq": "Eq", "Ne": "Ne"}
            if a == "S" or (a not in ("W",) and b == "W"):
                a, b, op = b, a, flip[op]
            return "%s %s %s" % (a, op, b)
    if c[0] == "un" and c[1] == "Not":
        return "not(" + normalise_atom(c[2], wp, sp) + ")"
    if c[0] == "call":
        return "%s(%s)" % (last_seg(c[1]), ",".join(show(x) for x in c[2]))
    return show(c)


def r5(db, rep):
    r = rep.rule("R5", "K5", "the evaluator accepts every extension/truncation the constructor accepts: the atoms "
                 "under which Constant::{zext,sext,trun} reports a Sort error are among those of "
                 "Expression::{zext,sext,trun}")
    for x in ("zext", "sext", "trun"):
        ce = rejection_atoms(db, "%s::%s" % (EXPR, x), 1, 2, True)
        cc = rejection_atoms(db, "%s::%s" % (CONST, x), 2, 1, False)
        rep.anchor(ce is not None and cc is not None, "Sort rejection in Expression::%s and Constant::%s" % (x, x))
        rep.analysed("%s::%s" % (EXPR, x), "%s::%s" % (CONST, x))
        extra = sorted(cc - ce)
        b = db.mir["%s::%s" % (CONST, x)]
        r.decide(not extra, "%s|accept" % x, db.where(b),
                 "Constant::%s rejects on %s which Expression::%s does not (an accepted expression fails to evaluate)"
                 % (x, extra, x), detail={"constructor": sorted(ce), "evaluator": sorted(cc)})


# ------------------------------------------------------------------------------------ R8
def r8(db, rep):
    r = rep.rule("R8", "K8", "no undischarged panic site is reachable from eval() or the public Constant operators")
    entries = ["executor::eval::eval"] + const_methods(db) + [CONST + "::zext", CONST + "::sext", CONST + "::trun"]
    panics.reach_rule(db, rep, r, entries, allow=C04_ALLOW, site_allow=C04_SITE_ALLOW,
                      extra_discharge=nonneg_guard, floor=18)   # 30 on the pinned tree; shared helpers merge sites


def nonneg_guard(db, body, tm, s):
    """to_biguint(x).unwrap() dominated by the true side of `x >= 0`."""
    ot = s.get("oterm")
    if s["kind"] != "unwrap" or ot is None or ot[1] != "num_bigint::BigInt::to_biguint":
        return None
    x = ot[2][0]
    cfg = Cfg(body)
    for i, b in enumerate(body["blocks"]):
        t = b["t"]
        if t["k"] != "SwitchInt":
            continue
        c = tm.operand(t["discr"])
        if c[0] == "call" and c[1].endswith("PartialOrd::ge") and c[2][0] == x:
            z = c[2][1]
            zero = any(st[0] == "const" and st[1] == 0 for st in subterms(z)) and \
                any(cc[1].endswith("from_i64") or cc[1].endswith("from_u64") for cc in calls_in(z))
            if zero and cfg.dominates(t["otherwise"], s["block"]) and t["otherwise"] != dict(
                    (v, bb) for v, bb in t["targets"]).get(0):
                return "dominated by the true side of `value >= 0`"
    return None


C04_SITE_ALLOW = {
    "il::constant::Constant::divs|unwrap@num_bigint::BigInt::to_biguint|1":
        "negative branch: ((r - 1) ^ mask) is negative for negative r and non-negative mask (two's-complement "
        "xor), so its negation is positive and to_biguint is Some",
    "il::constant::Constant::mods|unwrap@num_bigint::BigInt::to_biguint|1":
        "same re-encoding as divs: the negated xor of a negative value with a non-negative mask is positive",
}


def _nonneg_const_arg(call):
    a = call[2][0] if call[2] else None
    return bool(a) and a[0] == "const" and 0 <= a[1] < (1 << 63)


C04_ALLOW = {
    # producer-level facts about external crates, one reason each
    "unwrap@<num_bigint::BigUint as num_traits::FromPrimitive>::from_u64":
        "BigUint::from_u64 is total (every u64 is representable)",
    "unwrap@<num_bigint::BigUint as num_traits::FromPrimitive>::from_i64":
        ("BigUint::from_i64 of a non-negative literal is Some", _nonneg_const_arg),
    "unwrap@<num_bigint::BigInt as num_traits::FromPrimitive>::from_i64": "BigInt::from_i64 is total",
    "unwrap@<num_bigint::BigInt as num_traits::FromPrimitive>::from_u64": "BigInt::from_u64 is total",
    "unwrap@<num_bigint::BigUint as num_bigint::ToBigInt>::to_bigint": "BigUint -> BigInt conversion is total",
}


MANIFEST = {
    "technique": "static analysis: match-arm agreement over HIR, MIR dominance/def-use rules, operator reference table, call-graph panic reachability, bit-provenance abstract evaluation of derived builders",
    "text": "Decides structural necessary conditions of exact bit-vector evaluation on every run from rustc's HIR/MIR of the "
            "current tree: all 23 Expression variants are handled alike by every sibling function (same-named "
            "Constant method / constructor, operands in declared order, every operand visited, width function), the "
            "sort comparison and the zero-divisor test dominate every big-integer operator call, each Constant method "
            "reaches the num-bigint operator of its meaning with self/rhs in order and the signed view exactly for "
            "signed operators, value-derived shift amounts are bounded by the width, the evaluator rejects nothing the "
            "constructor accepts, results are built at the operand width with the right comparison polarity, and no "
            "undischarged panic site is reachable from eval; the derived builders rotl and sra produce, for 17 sampled "
            "widths (1..128, powers of two and others) and every constant amount, a term whose bit provenance is exactly "
            "the rotate / arithmetic shift. It does not decide numeric results of the big-integer primitives themselves "
            "(wrap-around and rounding); a wrong constant inside such a primitive passes.",
    "note": "Trusted: rustc nightly HIR/MIR, the operator reference table CORE in fv/props/c04.py (std::ops / num-bigint "
            "semantics), allow-list of total num-bigint conversions with reasons. Overflow Asserts (debug-only) are not panic sites here.",
}
