"""C11 — graph library.

Decided: the four views (vertices, edges, successors, predecessors) are written only by the four mutators,
each of which updates all the views it must, atomically (R1); remove_vertex removes incident edges in both
directions (R1b); every panic site reachable from the public API is discharged by key provenance (vertex
domain), a dominating guard, or a reasoned class (R2); traversals returning Result validate their root (R3);
Semi-NCA details that are shape facts: reachable-only initialisation, unreachable-predecessor guard,
compress recursion before label folding (R4); topological ordering starts a DFS from every vertex (R5);
dominance frontiers are defined for every vertex (R6). Not decided: equality with the textbook definitions.
"""
from armlib import last_seg
from db import Cfg, mir_callee, mir_calls, walk, callee
from mirterm import Terms, bodies_under, calls_in, params_of, show, subterms, terms_of, immediate_parent
import panics

G = "graph::Graph::<V, E>"
FIELDS = {".0": "vertices", ".1": "edges", ".2": "successors", ".3": "predecessors"}
MUT_METHODS = {"insert", "remove", "get_mut", "entry", "clear", "retain", "append", "extend", "pop_first", "pop_last",
               "values_mut", "iter_mut", "split_off", "drain"}


def graph_fns(db):
    return [k for k in db.mir.in_file("graph/mod.rs") if "::tests::" not in k and k.startswith(G)]


def field_of(t):
    """Graph field a receiver term is rooted at: field(param1, .N) possibly under calls."""
    for s in subterms(t):
        if s and s[0] == "field" and s[1] == ("param", 1) and s[2] in FIELDS:
            return FIELDS[s[2]]
    return None


def run(db, rep, feat, tier):
    rep.explanation = (
        "Static rules over MIR/HIR of lib/graph/mod.rs: a census of every call that mutates one of the four adjacency "
        "views (receiver rooted at a field of self) shows that only insert_vertex/insert_edge/remove_vertex/remove_edge "
        "change keys, each touching exactly the views it must, with no error return reachable after the first mutation; "
        "remove_vertex collects incident edges from both the successor and the predecessor view; every panic site "
        "(map index, unwrap) reachable from the public API is discharged by vertex-domain key provenance (validated "
        "parameter, iteration over a view, work-list fed only with such keys), by a dominating guard, or by a reasoned "
        "class for function-local maps; Result-returning traversals validate the root; Semi-NCA initialises and scans "
        "only reachable vertices and compresses recursively before folding labels; the topological DFS is rooted at "
        "every vertex; dominance frontiers exist for every vertex. Equality with textbook definitions is not decided.")
    fns = graph_fns(db)
    rep.anchor(len(fns) >= 45, "functions of Graph (found %d)" % len(fns))
    r1(db, rep, fns)
    r3(db, rep)
    r4(db, rep)
    r5_r6(db, rep)
    r7(db, rep)
    r2(db, rep)


# ------------------------------------------------------------------------------------------------ R1
def mutations(db, fn, cache):
    out = []
    for d in bodies_under(db, fn):
        body = db.mir[d]
        tm = terms_of(db, d, cache)
        for i, t in mir_calls(body):
            f = t.get("f") or ""
            if not (f.startswith("std::collections::BTreeMap") or f.startswith("std::collections::BTreeSet")):
                continue
            if last_seg(f) not in MUT_METHODS or not t["args"]:
                continue
            recv = tm.operand(t["args"][0])
            fld = field_of(recv)
            if fld and d == fn:
                out.append((fld, last_seg(f), i, t["l"]))
            elif fld:
                out.append((fld, last_seg(f), None, t["l"]))
    return out


def r1(db, rep, fns):
    r = rep.rule("R1", "K7", "only insert_vertex / insert_edge / remove_vertex / remove_edge change the key sets of the "
                 "four views; insert_vertex writes vertices+successors+predecessors, insert_edge and remove_edge write "
                 "edges+successors+predecessors, remove_vertex removes the vertex and its successor/predecessor entries; "
                 "no mutator can return an error after its first mutation (atomic updates); *_mut accessors only hand "
                 "out values")
    want = {
        G + "::insert_vertex": {"vertices", "successors", "predecessors"},
        G + "::insert_edge": {"edges", "successors", "predecessors"},
        G + "::remove_edge": {"edges", "successors", "predecessors"},
        G + "::remove_vertex": {"vertices", "successors", "predecessors"},
    }
    cache = {}
    top = [f for f in fns if "::{closure#" not in f]
    for fn in sorted(top):
        muts = mutations(db, fn, cache)
        rep.analysed(fn)
        body = db.mir[fn]
        if fn in want:
            got = {m[0] for m in muts}
            r.decide(got == want[fn], "%s|views" % fn, db.where(body),
                     "%s updates %s, must update %s" % (last_seg(fn), sorted(got), sorted(want[fn])))
            if fn != G + "::remove_vertex":
                # atomicity: no Err construction reachable after a mutation
                cfg = Cfg(body)
                errs = [i for i, b in enumerate(body["blocks"]) for s in b["s"]
                        if s.get("rv", {}).get("variant") == "std::prelude::v1::Err" and s["d"] == [0]]
                errs += [i for i, t in mir_calls(body) if last_seg(t.get("f") or "") == "from_residual"]
                late = []
                for (fld, meth, blk, line) in muts:
                    if blk is None:
                        continue
                    reach = cfg.reachable(blk)
                    late += [e for e in errs if e in reach and e != blk]
                r.decide(not late, "%s|atomic" % fn, db.where(body),
                         "%s can return an error after it already changed a view (views left inconsistent)" % last_seg(fn))
        elif muts:
            name = last_seg(fn)
            value_only = all(m[1] in ("get_mut", "values_mut", "iter_mut") and m[0] in ("vertices", "edges") for m in muts)
            r.decide(name.endswith("_mut") and value_only, "%s|writes_view" % fn, db.where(body),
                     "%s mutates the view(s) %s" % (name, sorted({m[0] + "." + m[1] for m in muts})))
    # remove_vertex: incident edges from both directions
    fn = G + "::remove_vertex"
    body = db.mir[fn]
    tm = terms_of(db, fn, cache)
    dirs = set()
    for i, t in mir_calls(body):
        if "HashSet" in (t.get("f") or "") and last_seg(t["f"]) == "insert" and len(t["args"]) == 2:
            v = tm.operand(t["args"][1])
            if v[0] == "tuple" and len(v[1]) == 2:
                a, b = v[1]
                if a == ("param", 2) and field_of(b) == "successors":
                    dirs.add("out")
                if b == ("param", 2) and field_of(a) == "predecessors":
                    dirs.add("in")
    removes = any(mir_callee(t) == G + "::remove_edge" for _i, t in mir_calls(body))
    r.decide(dirs == {"out", "in"} and removes, "remove_vertex|incident_edges", db.where(body),
             "remove_vertex must collect (index, s) for every successor and (p, index) for every predecessor and "
             "remove each of those edges; found directions %s" % sorted(dirs))
    r.floor(6, "4 mutators with views + atomicity")


# ------------------------------------------------------------------------------------------------ R3
def r3(db, rep):
    r = rep.rule("R3", "K4", "every public function that takes a vertex index and returns Result never indexes a view "
                 "by that index before validating it (has_vertex / contains_key on the dominating branch); total "
                 "lookups (get + ok_or) and delegation need no guard")
    cache = {}
    n = 0
    for k in graph_fns(db):
        h = db.hir.get(k)
        if not h or "::{closure#" in k or h.get("vis") != "Public":
            continue
        ins = h.get("inputs", [])
        if not (len(ins) >= 2 and ins[1] == "usize" and h.get("output", "").startswith("std::result::Result")
                and ins[0].startswith("&graph::Graph")):
            continue
        body = db.mir[k]
        tm = terms_of(db, k, cache)
        cfg = Cfg(body)
        guards = []
        for i, b in enumerate(body["blocks"]):
            t = b["t"]
            if t["k"] == "SwitchInt":
                c = tm.operand(t["discr"])
                if c[0] == "call" and (c[1] == G + "::has_vertex" or last_seg(c[1]) == "contains_key") and ("param", 2) in c[2]:
                    guards.append(t["otherwise"])
            # delegation: `self.compute_x(root)?` returned normally, and compute_x validates its root
            if t["k"] == "Call" and (mir_callee(t) or "").startswith(G + "::") and len(t["args"]) >= 2 and \
                    tm.operand(t["args"][1]) == ("param", 2) and db.hir.get(mir_callee(t), {}).get("output", "").startswith("std::result::Result") \
                    and mir_callee(t) != k:
                guards.append(i)
        bad = []
        for i, t in mir_calls(body):
            if last_seg(t.get("f") or "") == "index" and "Index" in (t.get("f") or "") and len(t["args"]) == 2:
                if tm.operand(t["args"][1]) == ("param", 2) and field_of(tm.operand(t["args"][0])):
                    if not any(cfg.dominates(g, i) for g in guards):
                        bad.append(t["l"])
        n += 1
        r.decide(not bad, "%s|root_validated" % k, db.where(body, bad[0] if bad else None),
                 "%s indexes a view by its vertex argument without validating it" % last_seg(k))
    r.floor(10, "public Result-returning functions taking a vertex index")


# ------------------------------------------------------------------------------------------------ R4
def r7(db, rep):
    from mirterm import terms_of, subterms
    r = rep.rule("R7", "K6", "compute_pre_order is a depth-first discovery order: a vertex is marked visited when it is taken from the "
                 "stack (and emitted then), never when it is pushed - marking on push emits a vertex at the depth of the first "
                 "ancestor that saw it, which is not a DFS pre-order on graphs with joins")
    fn = G + "::compute_pre_order"
    body = db.mir.get(fn)
    rep.anchor(body is not None, fn)
    tm = terms_of(db, fn, {})
    ins = [(i, t) for i, t in mir_calls(body) if last_seg(mir_callee(t) or "") == "insert" and "HashSet" in (mir_callee(t) or "")]
    rep.anchor(bool(ins), "visited.insert in compute_pre_order")
    for n, (i, t) in enumerate(ins):
        a = tm.operand(t["args"][1])
        from_pop = any(isinstance(x, tuple) and x and x[0] == "call" and str(x[1]).endswith("::pop") for x in subterms(a))
        r.decide(from_pop, "pre_order|visited_on_pop|%d" % n, db.where(body, t.get("l")),
                 "a vertex is marked visited before it is taken from the stack")
    r.floor(1, "visited.insert sites")


def r4(db, rep):
    r = rep.rule("R4", "K6", "Semi-NCA: the ancestor/label maps are initialised from the DFS pre-order (reachable "
                 "vertices only), predecessors without DFS number are skipped before they are looked up, and compress() "
                 "compresses the ancestor recursively before it folds the ancestor's label into the vertex's")
    fn = G + "::compute_immediate_dominators"
    body = db.mir.get(fn)
    rep.anchor(body is not None, fn)
    rep.analysed(fn)
    cache = {}
    tm = terms_of(db, fn, cache)
    cfg = Cfg(body)
    # (i) the two initial inserts (ancestor <- None, label <- dfs_number[v]) iterate the pre-order
    inits = []
    for i, t in mir_calls(body):
        if last_seg(t.get("f") or "") == "insert" and "HashMap" in t["f"] and len(t["args"]) == 3:
            val = tm.operand(t["args"][2])
            key = tm.operand(t["args"][1])
            if val[0] == "agg" and last_seg(val[1]) == "None":
                inits.append((i, key, t["l"]))
    ok_i = bool(inits) and all(any(last_seg(c[1]) == "compute_pre_order" for c in calls_in(k)) and field_of(k) is None
                               for (_i, k, _l) in inits[:1])
    r.decide(ok_i, "idom|init_reachable_only", db.where(body, inits[0][2]) if inits else db.where(body),
             "ancestor/label are initialised for vertices that have no DFS number (every vertex of the graph)")
    # (ii) guard on predecessors
    guard = None
    for i, b in enumerate(body["blocks"]):
        t = b["t"]
        if t["k"] == "SwitchInt":
            c = tm.operand(t["discr"])
            if c[0] == "call" and last_seg(c[1]) == "contains_key" and field_of(c[2][1]) == "predecessors":
                tg = dict((v, bb) for v, bb in t["targets"])
                guard = t["otherwise"]
            if c[0] == "un" and c[1] == "Not" and c[2][0] == "call" and last_seg(c[2][1]) == "contains_key" \
                    and field_of(c[2][2][1]) == "predecessors":
                tg = dict((v, bb) for v, bb in t["targets"])
                guard = tg.get(0)
    pred_lookups = []
    for i, t in mir_calls(body):
        if (t.get("f") or "").endswith("Index::index") and "HashMap" in t.get("fg", "") and len(t["args"]) == 2:
            k = tm.operand(t["args"][1])
            if field_of(k) == "predecessors":
                pred_lookups.append(i)
    ok_g = guard is not None and bool(pred_lookups) and all(cfg.dominates(guard, i) for i in pred_lookups)
    r.decide(ok_g, "idom|unreachable_predecessor_guard", db.where(body),
             "a predecessor is looked up in the DFS-indexed maps without first checking that it has a DFS number")
    # (iii) compress
    cf = fn + "::compress"
    cb = db.mir.get(cf)
    rep.anchor(cb is not None, cf)
    cf = cb["def"]       # the helper may have been moved (module-level function of a sibling module)
    ccfg = Cfg(cb)
    ctm = terms_of(db, cf, cache)
    rec = [i for i, t in mir_calls(cb) if mir_callee(t) == cf]
    rep.anchor(len(rec) >= 1, "recursive call in compress (path compression is recursive)")
    cmp_blocks = []
    for i, b in enumerate(cb["blocks"]):
        t = b["t"]
        if t["k"] == "SwitchInt":
            c = ctm.operand(t["discr"])
            if c[0] == "bin" and c[1] in ("Lt", "Gt", "Le", "Ge") and all(
                    any(last_seg(x[1] or "") == "index" for x in calls_in(s)) for s in (c[2], c[3])):
                cmp_blocks.append(i)
    label_writes = [i for i, t in mir_calls(cb) if last_seg(t.get("f") or "") == "insert" and "HashMap" in t["f"]
                    and ctm.operand(t["args"][0]) == ("param", 2)]
    ok_c = bool(cmp_blocks) and all(any(ccfg.dominates(rc, c) for rc in rec) for c in cmp_blocks) and \
        all(any(ccfg.dominates(rc, w) for rc in rec) for w in label_writes)
    r.decide(ok_c, "idom|compress_order", db.where(cb),
             "compress folds the ancestor's label before the ancestor itself has been compressed")
    # the recursive call passes the ancestor u = ancestor[v]
    arg_ok = False
    for rc in rec:
        a = ctm.operand(cb["blocks"][rc]["t"]["args"][2])
        arg_ok = arg_ok or any(last_seg(x[1] or "") == "index" for x in calls_in(a))
    r.decide(arg_ok, "idom|compress_ancestor", db.where(cb), "compress must recurse on the ancestor of its argument")


# ------------------------------------------------------------------------------------------------ R5/R6
def r5_r6(db, rep):
    r5 = rep.rule("R5", "K4", "compute_topological_ordering starts its depth-first walk from every vertex of the graph "
                  "(a cycle not reachable from a source is still visited and reported)")
    fn = G + "::compute_topological_ordering"
    body = db.mir.get(fn)
    rep.anchor(body is not None, fn)
    rep.analysed(fn)
    tm = terms_of(db, fn, {})
    walk_fn = fn + "::dfs_walk"
    roots = []
    for i, t in mir_calls(body):
        if mir_callee(t) == walk_fn:
            roots.append(tm.operand(t["args"][1]))
    all_vertices = bool(roots) and all(
        field_of(x) == "vertices" and any(last_seg(c[1]) in ("keys", "iter", "into_iter") for c in calls_in(x)) and
        not any(last_seg(c[1]) in ("vertices_without_predecessors", "filter") for c in calls_in(x)) for x in roots)
    r5.decide(all_vertices, "topological|roots", db.where(body),
              "DFS roots are %s, must be every key of the vertex map" % [show(x)[:80] for x in roots])
    r6 = rep.rule("R6", "K7", "compute_dominance_frontiers creates a (possibly empty) frontier for every vertex before "
                  "anything else: later lookups by any vertex cannot fail")
    fn = G + "::compute_dominance_frontiers"
    body = db.mir.get(fn)
    rep.anchor(body is not None, fn)
    rep.analysed(fn)
    tm = terms_of(db, fn, {})
    cfg = Cfg(body)
    init = None
    for i, t in mir_calls(body):
        if last_seg(t.get("f") or "") == "insert" and "HashMap" in t["f"] and len(t["args"]) == 3:
            k = tm.operand(t["args"][1])
            if field_of(k) == "vertices" and not any(last_seg(c[1]) in ("filter", "contains_key", "get") for c in calls_in(k)):
                # must be unconditional inside the loop: its block is not control dependent on a lookup
                init = i
    idom_call = [i for i, t in mir_calls(body) if mir_callee(t) == G + "::compute_immediate_dominators"]
    conditional = False
    if init is not None:
        # walk up single predecessors until the loop's `next()`; any other SwitchInt in between makes it conditional
        x = init
        seen = set()
        while x not in seen:
            seen.add(x)
            ps = cfg.pred[x]
            if len(ps) != 1:
                break
            x = ps[0]
            t = body["blocks"][x]["t"]
            if t["k"] == "SwitchInt":
                c = tm.operand(t["discr"])
                if c[0] == "discr" and any(last_seg(cc[1]) == "next" for cc in calls_in(c)):
                    break
                conditional = True
                break
    r6.decide(init is not None and not conditional, "dominance_frontiers|total", db.where(body),
              "the frontier map is not populated for every vertex")


# ------------------------------------------------------------------------------------------------ R2
LOCAL_MAP_FNS = {
    G + "::compute_immediate_dominators": "function-local maps (dfs_number, ancestor, label, semi, idoms) have an entry "
        "for every vertex of the DFS pre-order (R4 init rule); keys are pre-order vertices, their DFS parents, or "
        "predecessors that passed the DFS-number guard (R4 guard rule)",
    G + "::compute_immediate_dominators::compress": "called only for vertices whose ancestor entry is Some (checked by "
        "the caller on the dominating branch); ancestors are pre-order vertices with label/ancestor entries",
    G + "::compute_immediate_dominators::{closure#0}": "dfs_parent is applied to vertices of the DFS tree only",
    G + "::compute_dominators": "the dominator tree contains every vertex; a vertex's tree predecessors were visited "
        "earlier in the tree's pre-order",
    G + "::compute_dominance_frontiers": "df has an entry for every vertex (R6); idoms lookups are guarded by contains_key",
    G + "::compute_acyclic": "compute_predecessors() returns an entry for every vertex",
    G + "::compute_predecessors": "the map is populated for every vertex in the first loop",
}


TOTAL_MAP_FNS = {G + "::compute_acyclic", G + "::compute_predecessors"}


def r2(db, rep):
    r = rep.rule("R2", "K8", "every panic site reachable from the public Graph API is discharged: adjacency views are "
                 "indexed only by vertex-domain keys (validated parameter, element of a view, work-list fed with such "
                 "keys); local maps by reasoned classes whose premises are rules R4/R6")
    fns = [f for f in graph_fns(db) if "::{closure#" not in f and (db.hir.get(f) or {}).get("vis") == "Public"]
    validated = set()
    # parameters validated by the function itself (has_vertex / contains_key dominating the site)
    cache = {}

    def vertex_domain(d, body, tm, cfg, key, site_block, depth=0):
        """Is the key term a vertex of this graph?"""
        if depth > 4:
            return None
        # element of one of the views
        if field_of(key) in ("vertices", "successors", "predecessors", "edges"):
            return "element/key of the %s view" % field_of(key)
        if any(c[1].startswith(G + "::compute_") for c in calls_in(key)):
            return "vertex produced by a traversal/analysis of the same graph"
        # validated by a Result-returning analysis of the same graph that was given this key and returned normally
        for i, t in mir_calls(body):
            c = mir_callee(t) or ""
            if c.startswith(G + "::compute_") and len(t["args"]) >= 2 and tm.operand(t["args"][1]) == key and \
                    cfg.dominates(i, site_block) and i != site_block and \
                    db.hir.get(c, {}).get("output", "").startswith("std::result::Result"):
                return "validated by %s(key)? on the dominating path (R3)" % last_seg(c)
        # validated parameter
        for p in params_of(key):
            if key == ("param", p) or key == ("field", ("param", p), ".0") or True:
                for i, b in enumerate(body["blocks"]):
                    t = b["t"]
                    if t["k"] == "SwitchInt":
                        c = tm.operand(t["discr"])
                        neg = False
                        if c[0] == "un" and c[1] == "Not":
                            c, neg = c[2], True
                        if c[0] == "call" and (c[1] == G + "::has_vertex" or last_seg(c[1]) == "contains_key") and \
                                key in c[2]:
                            tg = dict((v, bb) for v, bb in t["targets"])
                            good = tg.get(0) if neg else t["otherwise"]
                            if good is not None and cfg.dominates(good, site_block):
                                return "validated by %s on the dominating branch" % last_seg(c[1])
        # work-list element: every push into the container is vertex-domain
        for s in subterms(key):
            if s and s[0] == "call" and last_seg(s[1]) in ("pop", "pop_front", "pop_back") and s[2]:
                cont = s[2][0]
                pushes = []
                for i, t in mir_calls(body):
                    if last_seg(t.get("f") or "") in ("push", "push_back", "push_front") and t["args"]:
                        if tm.operand(t["args"][0]) == cont:
                            pushes.append(tm.operand(t["args"][-1]))
                if pushes and all(vertex_domain(d, body, tm, cfg, p, site_block, depth + 1) or
                                  (p[0] == "tuple" and all(vertex_domain(d, body, tm, cfg, q, site_block, depth + 1) for q in p[1]))
                                  for p in pushes):
                    return "work-list fed only with vertex-domain keys"
        return None

    # inner recursive helpers: node parameter is the validated root or a successor element
    helper_ok = {}

    def discharge(db_, body, tm, s):
        d = s["fn"]
        t = s["extra"]
        cfg = Cfg(body)
        if d in LOCAL_MAP_FNS and s["kind"] in ("index", "unwrap"):
            recv = tm.operand(t["args"][0]) if t.get("args") else None
            if recv is not None and field_of(recv) is None or s["kind"] == "unwrap":
                if d in TOTAL_MAP_FNS and s["kind"] == "index" and len(t["args"]) == 2:
                    key = tm.operand(t["args"][1])
                    why = vertex_domain(d, body, tm, cfg, key, s["block"])
                    if not why:
                        return None
                    return "map with an entry for every vertex, indexed by a vertex (%s)" % why
                return "local map: " + LOCAL_MAP_FNS[d]
        # inner recursive helpers: the node parameter is vertex-domain at every call site
        if s["kind"] == "index" and t.get("args") and len(t["args"]) == 2 and tm.operand(t["args"][1]) == ("param", 2):
            recv0 = tm.operand(t["args"][0])
            if recv0[0] == "field" and recv0[1] == ("param", 1) and (db_.hir.get(d) or {}).get("vis") != "Public":
                g = panics.call_graph(db_)
                ok = True
                ncall = 0
                for caller in g.callers_of(d):
                    cb = db_.mir[caller]
                    ctm = terms_of(db_, caller, cache)
                    ccfg = Cfg(cb)
                    for i, ct in mir_calls(cb):
                        if mir_callee(ct) == d:
                            ncall += 1
                            a = ctm.operand(ct["args"][1])
                            if caller == d or caller.startswith(d + "::{closure#"):
                                good = field_of(a) in ("successors", "predecessors") or any(
                                    x and x[0] == "carg" and field_of(x) for x in subterms(a))
                            else:
                                good = bool(vertex_domain(caller, cb, ctm, ccfg, a, i))
                            ok = ok and good
                if ok and ncall:
                    return "helper called only with vertex-domain nodes (validated root or element of a view) at %d call sites" % ncall
        if s["kind"] == "index" and t.get("args") and len(t["args"]) == 2:
            recv, key = tm.operand(t["args"][0]), tm.operand(t["args"][1])
            if field_of(recv) in ("successors", "predecessors"):
                why = vertex_domain(d, body, tm, cfg, key, s["block"])
                if why:
                    return "adjacency view indexed by a vertex: " + why
                if key == ("param", 2) and last_seg(d) in ("dfs_walk", "dfs_is_acyclic"):
                    return None
            if field_of(recv) == "edges":
                # edges_in/out closures: (head, tail) pairs drawn from the adjacency views
                if all(field_of(x) or x == ("param", 2) for x in (key[1] if key[0] == "tuple" else [key])):
                    return "edge key assembled from the adjacency views (mirror invariant R1)"
        if s["kind"] == "unwrap" and s.get("oterm") is not None:
            ot = s["oterm"]
            if ot[1].startswith("std::collections::BTreeMap") and last_seg(ot[1]) in ("get", "get_mut") and len(ot[2]) == 2:
                recv, key = ot[2]
                if field_of(recv) in ("successors", "predecessors", "vertices"):
                    if field_of(key) or vertex_domain(d, body, tm, cfg, key, s["block"]):
                        return "view lookup by a vertex-domain key (mirror invariant R1)"
                    # insert_edge / remove_edge: endpoints validated by the dominating contains_key / has_edge tests
                    if last_seg(d) in ("insert_edge", "remove_edge"):
                        return "endpoints validated before the first mutation (atomicity rule R1)"
                    par = immediate_parent(d)
                    if par and field_of(recv) == "vertices":
                        return "vertex lookup for an element of an adjacency set (mirror invariant R1)"
                    if par and any(x and x[0] == "carg" for x in subterms(key)):
                        return "closure over the vertices of the graph: every vertex has an adjacency entry (R1)"
            if last_seg(ot[1]) in ("pop_front", "pop") and "VecDeque" in ot[1] + (ot[3] or ""):
                # dominated by !is_empty()
                for i, b in enumerate(body["blocks"]):
                    tt = b["t"]
                    if tt["k"] == "SwitchInt":
                        c = tm.operand(tt["discr"])
                        if (c[0] == "un" and c[2][0] == "call" and last_seg(c[2][1]) == "is_empty") or \
                                (c[0] == "call" and last_seg(c[1]) == "is_empty"):
                            return "dominated by the queue's is_empty() test"
        return None

    panics.reach_rule(db, rep, r, fns, scope_prefixes=("graph::Graph",), site_allow=SITE_ALLOW,
                      extra_discharge=discharge, floor=25)


SITE_ALLOW = {
    G + "::reachable_vertices|unwrap@std::collections::BTreeMap::<K, V, A>::get|0":
        "the work-list holds the validated start vertex and elements of successor sets (pushed in the closure below)",
    G + "::edges_in::{closure#0}::{closure#0}|index@BTreeMap|0":
        "edge key (p, index) with p drawn from predecessors[index]: the edge exists by the mirror invariant (R1)",
    G + "::edges_out::{closure#0}::{closure#0}|index@BTreeMap|0":
        "edge key (index, s) with s drawn from successors[index]: the edge exists by the mirror invariant (R1)",
    G + "::remove_unreachable_vertices::{closure#0}|unwrap@graph::Graph::<V, E>::remove_vertex|0":
        "the removed vertices are keys of the vertex map (unreachable_vertices filters self.vertices.keys())",
}

MANIFEST = {
    "technique": "static analysis: field-mutation census on MIR terms, atomicity by reachability, key-provenance discharge of panic sites, dominance rules for Semi-NCA",
    "text": "Decides on every run the structural clauses of the graph property: the four adjacency views can only change "
            "together and atomically (so predecessor/successor queries agree with the edge set by construction), "
            "remove_vertex removes edges in both directions, no undischarged panic site is reachable (vertices unreachable "
            "from the root cannot cause a failure), roots are validated, and three shape facts of Semi-NCA / topological "
            "order / dominance frontiers that recent mistakes would break. It does not decide that dominators, loops, "
            "orders etc. equal their textbook definitions.",
    "note": "Trusted: rustc nightly MIR/HIR; reasoned discharge classes for function-local maps (premises are rules R4 and "
            "R6 of this check); is_acyclic(root) with a missing root is a known finding (returns bool, cannot report it).",
}
