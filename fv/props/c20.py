"""C20 — architecture descriptors, calling conventions, translator register sets (finite: decided completely).

The quantifier is seven architectures x constant tables; everything is read from the HIR of the current
tree and compared exhaustively: each calling-convention arm is evaluated to its register lists, each
Architecture impl to its literals, each lifter register table to its rows, and all of them against each
other and against the psABI reference rows (DESIGN appendix E).
"""
from armlib import arm_table, last_seg, main_match, unq
from db import callee, int_lit, str_lit, walk, strip, mir_callee, mir_calls
from mirterm import terms_of, calls_in, subterms, show, strip_overflow
import tables

CC = "analysis::calling_convention::CallingConvention"
CCT = "analysis::calling_convention::CallingConventionType"

# psABI reference rows: args in order, return register, return address, slot bytes, stack pointer
ABI = {
    "Cdecl": {"args": [], "ret": ("eax", 32), "ra": ("Stack", 0), "slot": 4, "sp": ("esp", 32)},
    "Amd64SystemV": {"args": [("rdi", 64), ("rsi", 64), ("rdx", 64), ("rcx", 64), ("r8", 64), ("r9", 64)],
                     "ret": ("rax", 64), "ra": ("Stack", 0), "slot": 8, "sp": ("rsp", 64)},
    "MipsSystemV": {"args": [("$a0", 32), ("$a1", 32), ("$a2", 32), ("$a3", 32)], "ret": ("$v0", 32),
                    "ra": ("Register", ("$ra", 32)), "slot": 4, "sp": ("$sp", 32)},
    "MipselSystemV": {"args": [("$a0", 32), ("$a1", 32), ("$a2", 32), ("$a3", 32)], "ret": ("$v0", 32),
                      "ra": ("Register", ("$ra", 32)), "slot": 4, "sp": ("$sp", 32)},
    "PpcSystemV": {"args": [("r%d" % i, 32) for i in range(3, 11)], "ret": ("r3", 32),
                   "ra": ("Register", ("lr", 32)), "slot": 4, "sp": ("r1", 32)},
    "AArch64": {"args": [("x%d" % i, 64) for i in range(8)], "ret": ("x0", 64),
                "ra": ("Register", ("x30", 64)), "slot": 8, "sp": ("sp", 64)},
}
# architecture -> (calling convention, register table(s), lifter source files, endianness)
ARCH = {
    "X86": ("Cdecl", ["translator::x86::x86register::X86REGISTERS"], "translator/x86/", "Little", 32),
    "Amd64": ("Amd64SystemV", ["translator::x86::x86register::AMD64REGISTERS"], "translator/x86/", "Little", 64),
    "Mips": ("MipsSystemV", ["translator::mips::semantics::MIPS_REGISTERS"], "translator/mips/", "Big", 32),
    "Mipsel": ("MipselSystemV", ["translator::mips::semantics::MIPS_REGISTERS"], "translator/mips/", "Little", 32),
    "Ppc": ("PpcSystemV", ["translator::ppc::semantics::PPC_REGISTERS"], "translator/ppc/", "Big", 32),
    "AArch64": ("AArch64", ["translator::aarch64::register::AARCH64_REGISTERS"], "translator/aarch64/", "Little", 64),
    "AArch64Eb": ("AArch64", ["translator::aarch64::register::AARCH64_REGISTERS"], "translator/aarch64/", "Big", 64),
}


def scalar_of(n):
    n = unq(n)
    if callee(n) in ("il::scalar", "il::expr_scalar") and n.get("k") == "Call" and len(n["args"]) == 2:
        nm, b = str_lit(n["args"][0]), int_lit(n["args"][1])
        if nm is not None and b is not None:
            return (nm, b)
    return None


def helper_scalars(db, call):
    """`helper(&["a", "b"], 32)` where the crate-local helper builds il::scalar(<element of its slice parameter>, <its width
    parameter>) for every element: the collection of (name, width) it yields, or None when the helper is not of that shape."""
    f = db.hir.get(callee(call) or "") if db is not None else None
    if f is None or call.get("k") != "Call":
        return None
    # `helper(&[("a", 32), ("b", 32)])`: one table of (name, width) pairs, each turned into il::scalar(name, width)
    if len(call["args"]) == 1 and len(f.get("params", [])) == 1:
        arr = [x for x in walk(call["args"][0]) if x.get("k") == "Array"]
        rows = []
        for e in (arr[0].get("es", []) if arr else []):
            u = unq(e)
            if u.get("k") == "Tup" and len(u.get("es", [])) == 2 and str_lit(u["es"][0]) is not None and int_lit(u["es"][1]) is not None:
                rows.append((str_lit(u["es"][0]), int_lit(u["es"][1])))
            else:
                rows = None
                break
        made = [x for x in walk(f["body"]) if callee(x) in ("il::scalar", "il::expr_scalar") and x.get("k") == "Call" and len(x["args"]) == 2]
        if rows and len(made) == 1 and not any(y.get("k") == "Lit" for a_ in made[0]["args"] for y in walk(a_)):
            # both arguments of the one il::scalar call are bindings of the destructured element, in (name, width) order
            from db import all_patterns, pat_bindings
            order = {}
            for pt in all_patterns(f["body"]):
                for nm_, hid_, pos_ in pat_bindings(pt):
                    if pos_ and pos_[-1] in (0, 1):
                        order[hid_] = pos_[-1]
            a0, a1 = unq(made[0]["args"][0]), unq(made[0]["args"][1])
            while a0.get("k") in ("Unary", "AddrOf") and "e" in a0:
                a0 = unq(a0["e"])
            while a1.get("k") in ("Unary", "AddrOf") and "e" in a1:
                a1 = unq(a1["e"])
            if order.get(a0.get("res", {}).get("hid")) == 0 and order.get(a1.get("res", {}).get("hid")) == 1:
                kind = "set" if "HashSet" in (f.get("output") or "") else "list"
                return (kind, rows)
    names = bits = None
    for i, a in enumerate(call["args"]):
        arr = [x for x in walk(a) if x.get("k") == "Array"]
        if arr:
            strs = [str_lit(e) for e in arr[0].get("es", arr[0].get("elems", []))]
            if strs and all(x is not None for x in strs):
                names = (i, strs)
        elif int_lit(unq(a)) is not None:
            bits = (i, int_lit(unq(a)))
    if names is None or bits is None or len(f.get("params", [])) != len(call["args"]):
        return None
    pn, pb = f["params"][names[0]].get("hid"), f["params"][bits[0]].get("hid")
    made = [x for x in walk(f["body"]) if callee(x) in ("il::scalar", "il::expr_scalar") and x.get("k") == "Call" and len(x["args"]) == 2]
    if len(made) != 1:
        return None
    w = unq(made[0]["args"][1])
    width_is_param = w.get("k") == "Path" and w.get("res", {}).get("hid") == pb
    name_from_slice = not any(x.get("k") == "Lit" for x in walk(made[0]["args"][0])) and \
        any(x.get("k") == "Path" and x.get("res", {}).get("hid") == pn for x in walk(f["body"]))
    if not (width_is_param and name_from_slice):
        return None
    kind = "set" if "HashSet" in (f.get("output") or "") else "list"
    return (kind, [(nm, bits[1]) for nm in names[1]])


def helper_target(call):
    """For `helper(&mut collection, &[names], bits)`: the local that receives the scalars."""
    for a in call.get("args", []):
        u = a
        while u.get("k") in ("AddrOf", "DropTemps", "Paren") and "e" in u:
            if u.get("k") == "AddrOf" and u.get("mut") in (True, "Mut", "mut"):
                inner = unq(u["e"])
                if inner.get("k") == "Path" and "local" in inner.get("res", {}):
                    return inner["res"]["hid"]
            u = u["e"]
    return None


def eval_cc_arm(body_expr, db=None):
    """Evaluate one arm of CallingConvention::new to {field: value}."""
    env = {}      # local hid -> list / set of scalars or literal
    b = unq(body_expr)
    stmts = b.get("stmts", [])
    for s in stmts:
        if s["k"] == "Let" and s["pat"].get("k") == "Bind":
            hid = s["pat"]["hid"]
            init = s.get("init")
            if init is None:
                continue
            scs = [scalar_of(x) for x in walk(init)]
            scs = [x for x in scs if x]
            c = callee(unq(init)) or ""
            hs = helper_scalars(db, unq(init))
            if hs is not None:
                env[hid] = hs
            elif "HashSet" in c and last_seg(c) == "new":
                env[hid] = ("set", [])
            elif scs and last_seg(c) in ("into_vec", "from", "to_vec") or (scs and unq(init).get("k") in ("Array",)) or \
                    (scs and "vec" in (unq(init).get("mac") or "")) or (scs and len(scs) > 1):
                env[hid] = ("list", scs)
            elif scs and len(scs) == 1:
                cons = unq(init)
                if cons.get("k") == "Call" and "ctor_of" in cons.get("fn", {}):
                    env[hid] = ("ctor", last_seg(cons["fn"]["ctor_of"]), scs[0])
                else:
                    env[hid] = ("scalar", scs[0])
            elif unq(init).get("k") == "Call" and "ctor_of" in unq(init).get("fn", {}):
                cons = unq(init)
                env[hid] = ("ctor", last_seg(cons["fn"]["ctor_of"]), int_lit(cons["args"][0]) if cons["args"] else None)
            elif "Vec" in c and last_seg(c) == "new" or (unq(init).get("mac") and "vec" in unq(init)["mac"]):
                env[hid] = ("list", [])
        elif s["k"] == "Expr":
            e = unq(s["e"])
            hs = helper_scalars(db, e) if e.get("k") == "Call" else None
            if hs is not None:
                tgt = helper_target(e)
                if tgt in env and env[tgt] is not None and env[tgt][0] in ("set", "list"):
                    env[tgt][1].extend(hs[1])
                    continue
            if e.get("k") == "MethodCall" and e["name"] in ("insert", "push") and e["args"]:
                rcv = unq(e["recv"])
                sc = scalar_of(e["args"][0])
                if rcv.get("k") == "Path" and "local" in rcv["res"] and sc and rcv["res"]["hid"] in env:
                    env[rcv["res"]["hid"]][1].append(sc)
    out = {}
    lit = b.get("expr")
    lit = unq(lit) if lit else None
    if lit is None or lit.get("k") != "Struct":
        return None
    for f in lit["fields"]:
        e = unq(f["e"])
        if e.get("k") == "Path" and "local" in e["res"]:
            out[f["n"]] = env.get(e["res"]["hid"])
        elif ("Vec" in (callee(e) or "") and last_seg(callee(e) or "") == "new") or (e.get("mac") and "vec" in e["mac"] and not any(scalar_of(x) for x in walk(e))):
            out[f["n"]] = ("list", [])
        elif int_lit(e) is not None:
            out[f["n"]] = ("int", int_lit(e))
        elif scalar_of(e):
            out[f["n"]] = ("scalar", scalar_of(e))
        elif e.get("k") == "Call" and "ctor_of" in e.get("fn", {}):
            a = e["args"][0] if e["args"] else None
            out[f["n"]] = ("ctor", last_seg(e["fn"]["ctor_of"]), scalar_of(a) if a is not None and scalar_of(a) else (int_lit(a) if a is not None else None))
        else:
            out[f["n"]] = None
    return out


def run(db, rep, feat, tier):
    rep.exhaustive = True
    rep.explanation = (
        "Exhaustive static comparison of constant tables read from the HIR of the current tree: every arm of "
        "CallingConvention::new is evaluated to (argument list, preserved set, trashed set, stack offset and slot, "
        "return address, return register); every Architecture impl to (stack pointer, word size, endianness, calling "
        "convention, translator); every lifter register table to its rows; the scalar universe of each lifter = full "
        "registers of its table plus scalar literals in its source files. Checked for all seven architectures: every "
        "calling-convention register exists in the lifter's universe with that width; argument order, return register, "
        "return-address location, slot size = word size / 8, stack pointer preserved, preserved and trashed disjoint, "
        "all against the psABI reference rows; descriptors agree with each other and with the endianness the translator "
        "passes to its lifter; argument_type's stack-offset formula; ELF machine/endianness -> architecture table.")
    r = rep.rule("R1", "K2", "calling-convention tables agree with the platform ABI reference rows and with themselves")
    r2 = rep.rule("R2", "K1", "every register named by a calling convention is a scalar the architecture's lifter "
                  "produces, with that width")
    r3 = rep.rule("R3", "K2", "Architecture descriptors: stack pointer, word size, endianness, calling convention and "
                  "translator agree with each other, with the lifter and with the ABI")
    hb = db.hir.get(CC + "::new")
    rep.anchor(hb is not None, CC + "::new")
    rep.analysed(CC + "::new")
    m = main_match(hb, CCT)
    rep.anchor(m is not None, "match over CallingConventionType")
    ccs = {}
    for a in arm_table(m):
        val = eval_cc_arm(a.body, db)
        for v in a.variants:
            ccs[last_seg(v)] = (val, a.line)
    for name, ref in ABI.items():
        rep.anchor(name in ccs and ccs[name][0] is not None, "calling convention arm %s" % name)
        cc, line = ccs[name]
        w = db.where(hb, line)
        for fld in ("argument_registers", "preserved_registers", "trashed_registers"):
            rep.anchor(cc.get(fld) is not None, "%s of %s is built in a form the evaluator understands" % (fld, name))
        args = (cc.get("argument_registers") or ("list", []))[1]
        pres = set((cc.get("preserved_registers") or ("set", []))[1])
        trash = set((cc.get("trashed_registers") or ("set", []))[1])
        r.decide(args[:len(ref["args"])] == ref["args"], "%s|argument_order" % name, w,
                 "integer argument registers are %s, ABI order is %s" % (args[:len(ref["args"])], ref["args"]))
        retr = cc.get("return_register")
        r.decide(retr == ("scalar", ref["ret"]), "%s|return_register" % name, w, "return register %s, ABI %s" % (retr, ref["ret"]))
        ra = cc.get("return_address_type")
        want_ra = ("ctor", ref["ra"][0], ref["ra"][1])
        r.decide(ra == want_ra, "%s|return_address" % name, w, "return address %s, ABI %s" % (ra, want_ra))
        slot = cc.get("stack_argument_length")
        r.decide(slot == ("int", ref["slot"]), "%s|stack_slot" % name, w, "stack slot %s bytes, machine word is %s bytes" % (slot, ref["slot"]))
        r.decide(not (pres & trash), "%s|preserved_trashed_disjoint" % name, w, "both preserved and trashed: %s" % sorted(pres & trash))
        r.decide(ref["sp"] in pres, "%s|stack_pointer_preserved" % name, w, "stack pointer %s is not in the preserved set" % (ref["sp"],))
        r.decide(len(set(args)) == len(args), "%s|arguments_distinct" % name, w, "an argument register is listed twice")
    # ---- lifter universes
    uni = {}
    for arch, (ccname, tabs, srcdir, endian, word) in ARCH.items():
        u = set()
        for t in tabs:
            rows = tables.const_table(db, t)
            rep.anchor(rows is not None and len(rows) >= 30, "register table %s" % t)
            full_key = "full_reg" if "full_reg" in rows[0] else ("bad64_full_reg" if "bad64_full_reg" in rows[0] else None)
            reg_key = "capstone_reg" if "capstone_reg" in rows[0] else "bad64_reg"
            for row in rows:
                if full_key is None or row[full_key] == row[reg_key]:
                    u.add((row["name"], row["bits"]))
        keys = [k for k in db.hir.keys() if srcdir in db.hir.file_of(k) and "/tests/" not in db.hir.file_of(k)
                and not db.hir.file_of(k).endswith("test.rs")]
        u |= tables.scalar_literals(db, keys)
        uni[arch] = u
        cc, line = ccs[ccname]
        listed = set((cc.get("argument_registers") or ("list", []))[1]) | set((cc.get("preserved_registers") or ("set", []))[1]) \
            | set((cc.get("trashed_registers") or ("set", []))[1])
        if cc.get("return_register"):
            listed.add(cc["return_register"][1])
        if cc.get("return_address_type") and cc["return_address_type"][1] == "Register":
            listed.add(cc["return_address_type"][2])
        for sc in sorted(listed):
            r2.decide(sc in u, "%s|%s:%d" % (arch, sc[0], sc[1]), db.where(hb, line),
                      "%s lists %s:%d which the %s lifter never produces%s" % (
                          ccname, sc[0], sc[1], arch,
                          " (it produces %s)" % sorted(x for x in u if x[0] == sc[0]) if any(x[0] == sc[0] for x in u) else ""))
    # ---- Architecture impls
    for arch, (ccname, tabs, srcdir, endian, word) in ARCH.items():
        pre = "<architecture::%s as architecture::Architecture>::" % arch
        fs = {last_seg(k): db.hir[k] for k in db.hir.keys() if k.startswith(pre)}
        rep.anchor({"stack_pointer", "word_size", "endian", "calling_convention", "translator"} <= set(fs), "Architecture impl for %s" % arch)
        rep.analysed(*[f["def"] for f in fs.values()])
        sp = None
        for x in walk(fs["stack_pointer"]["body"]):
            sp = sp or scalar_of(x)
        ws = next((x["v"]["int"] for x in walk(fs["word_size"]["body"]) if x.get("k") == "Lit" and "int" in x["v"]), None)
        en = next((last_seg(x["res"].get("ctor_of", "")) for x in walk(fs["endian"]["body"]) if x.get("k") == "Path" and "ctor_of" in x["res"]), None)
        cct = next((last_seg(x["res"].get("ctor_of", "")) for x in walk(fs["calling_convention"]["body"]) if x.get("k") == "Path" and
                    (x["res"].get("ctor_of", "") or "").startswith(CCT)), None)
        tr = next((callee(x) for x in walk(fs["translator"]["body"]) if (callee(x) or "").startswith("translator::") and last_seg(callee(x)) == "new"), None)
        w = db.where(fs["stack_pointer"])
        r3.decide(sp == ABI[ccname]["sp"], "%s|stack_pointer" % arch, w, "stack pointer %s, ABI/lifter %s" % (sp, ABI[ccname]["sp"]))
        r3.decide(sp in uni[arch], "%s|stack_pointer_produced" % arch, w, "stack pointer %s is not a scalar the lifter produces" % (sp,))
        r3.decide(ws == word and sp is not None and sp[1] == ws, "%s|word_size" % arch, w, "word size %s (expected %s, stack pointer %s)" % (ws, word, sp))
        r3.decide(en == endian, "%s|endian" % arch, w, "endianness %s, expected %s" % (en, endian))
        same_arm = cct in ccs and ccs[cct][1] == ccs[ccname][1]
        r3.decide(cct == ccname or same_arm, "%s|calling_convention" % arch, w, "calling convention %s, expected %s" % (cct, ccname))
        want_tr = {"X86": "translator::x86::X86::new", "Amd64": "translator::x86::Amd64::new", "Mips": "translator::mips::Mips::new",
                   "Mipsel": "translator::mips::Mipsel::new", "Ppc": "translator::ppc::Ppc::new",
                   "AArch64": "translator::aarch64::AArch64::new", "AArch64Eb": "translator::aarch64::AArch64Eb::new"}[arch]
        r3.decide(tr == want_tr, "%s|translator" % arch, w, "translator %s, expected %s" % (tr, want_tr))
        # a boxed clone is a copy of the same descriptor: box_clone derives its value from self and constructs no other type
        if "box_clone" in fs:
            bc = fs["box_clone"]
            clones_self = any(x.get("k") == "MethodCall" and x.get("name") == "clone" and any(
                y.get("k") == "Path" and y.get("res", {}).get("local") == "self" for y in walk(x["recv"])) for x in walk(bc["body"]))
            others = [callee(x) for x in walk(bc["body"]) if (callee(x) or "").startswith("architecture::") and last_seg(callee(x) or "") == "new"]
            r3.decide(clones_self and not [o for o in others if not o.startswith("architecture::%s::" % arch)], "%s|box_clone" % arch, db.where(bc),
                      "box_clone of %s does not copy itself (constructs %s): the clone reports another architecture's name, endianness "
                      "and translator" % (arch, others))
        # the Endian literal the translator impl passes on
        timpl = [k for k in db.hir.keys() if k.startswith("<%s as translator::Translator>::translate_block" % want_tr[:-5])]
        if timpl:
            lits = [last_seg(x["res"].get("ctor_of", "")) for x in walk(db.hir[timpl[0]]["body"]) if x.get("k") == "Path" and
                    (x["res"].get("ctor_of", "") or "").startswith("architecture::Endian::")]
            modes = [last_seg(x["res"].get("ctor_of", "")) for x in walk(db.hir[timpl[0]]["body"]) if x.get("k") == "Path" and
                     (x["res"].get("ctor_of", "") or "").startswith("translator::x86::mode::Mode::")]
            if lits:
                r3.decide(lits == [endian], "%s|translator_endian" % arch, db.where(db.hir[timpl[0]]),
                          "translator lifts with Endian::%s, descriptor says %s" % (lits, endian))
            elif modes:
                r3.decide(modes == [arch], "%s|translator_mode" % arch, db.where(db.hir[timpl[0]]), "translator mode %s" % modes)
            else:
                r3.open("%s|translator_endian" % arch, db.where(db.hir[timpl[0]]), "no Endian literal found")
    r4(db, rep)
    r5(db, rep)
    # the scalar universe of the x86 lifters is computed from their register tables: the tables must be exact (C01.R1)
    import props.c01 as c01
    before = len(rep.rules)
    c01.r1(db, rep)
    for rr in rep.rules[before:]:
        rr.id = "R6." + rr.id
        rr.floors = []
        for i in rr.instances:
            i["key"] = "R6." + i["key"]
            i["rule"] = rr.id
    r.floor(40, "6 conventions x 7 clauses")
    r2.floor(150, "registers listed by the conventions of the seven architectures")
    r3.floor(40, "7 architectures x 6+ clauses")


def r4(db, rep):
    r = rep.rule("R4", "K9", "argument_type: register arguments come first in table order; the n-th stack argument is "
                 "at stack_argument_offset + stack_argument_length * (n - number of register arguments)")
    fn = CC + "::argument_type"
    body = db.mir.get(fn)
    rep.anchor(body is not None, fn)
    rep.analysed(fn)
    tm = terms_of(db, fn, {})
    off_ok = False
    for blk in body["blocks"]:
        for s in blk["s"]:
            rv = s.get("rv")
            if rv and rv["k"] == "Aggregate" and last_seg(rv.get("variant", "")) == "Stack":
                t = strip_overflow(tm.operand(rv["ops"][0]))
                flat = [strip_overflow(x) for x in subterms(t)]
                has_sub = any(x[0] == "bin" and x[1] == "Sub" and strip_overflow(x[2]) == ("param", 2) and
                              any(last_seg(c[1]) == "len" for c in calls_in(x[3])) for x in flat if isinstance(x, tuple) and x)
                has_mul = any(x[0] == "bin" and x[1] == "Mul" for x in flat if isinstance(x, tuple) and x)
                has_add = t[0] == "bin" and t[1] == "Add"
                off_ok = has_sub and has_mul and has_add
    r.decide(off_ok, "argument_type|stack_offset", db.where(body),
             "the stack offset is not offset + length * (argument_number - register_arguments.len())")
    # the register handed out is the element of the register list at position argument_number (indexing or get())
    reg_ok = False
    for blk in body["blocks"]:
        for s in blk["s"]:
            rv = s.get("rv")
            if rv and rv["k"] == "Aggregate" and last_seg(rv.get("variant", "")) == "Register":
                t = tm.operand(rv["ops"][0])
                for c in calls_in(t):
                    if last_seg(c[1]) in ("index", "get") and len(c[2]) == 2 and c[2][1] == ("param", 2) and \
                            any(isinstance(x, tuple) and x and x[0] == "field" and x[1] == ("param", 1) for x in subterms(c[2][0])):
                        reg_ok = True
    r.decide(reg_ok, "argument_type|register_order", db.where(body), "register arguments must be argument_registers[argument_number]")


def r5(db, rep):
    r = rep.rule("R5", "K2", "ELF e_machine and EI_DATA select the architecture descriptor: EM_386 -> X86, EM_X86_64 -> "
                 "Amd64, EM_MIPS -> Mips/Mipsel, EM_PPC -> Ppc (big only), EM_AARCH64 -> AArch64Eb/AArch64")
    hb = db.hir.get("loader::elf::elf::Elf::new")
    rep.anchor(hb is not None, "Elf::new")
    rep.analysed(hb["def"])
    want = {"EM_386": {"any": "X86"}, "EM_X86_64": {"any": "Amd64"}, "EM_MIPS": {"Big": "Mips", "Little": "Mipsel"},
            "EM_PPC": {"Big": "Ppc", "Little": "Err"}, "EM_AARCH64": {"Big": "AArch64Eb", "Little": "AArch64"}}
    got = {}

    def arch_ctor(n):
        for x in walk(n):
            c = callee(x) or ""
            if c.startswith("architecture::") and last_seg(c) == "new":
                return c.split("::")[1]
        if any(x.get("k") == "Ret" for x in walk(n)):
            return "Err"
        return None

    from db import pat_leaves, pat_path

    def em_of(n):
        for x in walk(n):
            if x.get("k") == "Path" and last_seg(x.get("res", {}).get("def", "") or "").startswith("EM_"):
                return last_seg(x["res"]["def"])
        return None

    def select(n, em, endian):
        """Which descriptor the selecting expression yields for (e_machine, byte order): the decision tree is evaluated,
        whether it is written as an if-chain or as a match."""
        n = unq(n)
        k = n.get("k")
        if k == "Block":
            return select(n["expr"], em, endian) if n.get("expr") else arch_ctor(n)
        if k == "If":
            c = unq(n["c"])
            if c.get("k") == "Binary" and c.get("op") in ("Eq", "Ne") and em_of(c) is not None:
                taken = (em_of(c) == em) == (c["op"] == "Eq")
                if taken:
                    return select(n["then"], em, endian)
                return select(n["else"], em, endian) if "else" in n else None
            return None
        if k == "Match" and n.get("src") == "Normal":
            by_endian = any((callee(x) or "").endswith("endianness") for x in walk(n["scrut"]))
            for a_ in n["arms"]:
                if "guard" in a_:
                    return None
                hit = False
                for leaf in pat_leaves(a_["pat"]):
                    if leaf.get("k") == "Wild":
                        hit = True
                    pp = pat_path(leaf)
                    nm = last_seg(pp) if pp else (em_of(leaf) or "")
                    if by_endian and nm == endian:
                        hit = True
                    if not by_endian and nm == em:
                        hit = True
                if hit:
                    return select(a_["body"], em, endian)
            return None
        return arch_ctor(n)

    root = None
    for n in walk(hb["body"]):
        u = unq(n)
        if (u.get("k") == "If" and em_of(u["c"])) or (u.get("k") == "Match" and u.get("src") == "Normal" and
                                                       any(em_of(a_["pat"]) or any(last_seg(pat_path(l_) or "").startswith("EM_") for l_ in pat_leaves(a_["pat"])) for a_ in u["arms"])):
            root = u
            break
    rep.anchor(root is not None, "the e_machine decision in Elf::new")
    for em, w in want.items():
        d = {e: select(root, em, e) for e in ("Big", "Little")}
        got[em] = {"any": d["Big"]} if "any" in w and d["Big"] == d["Little"] else d
    other = {e: select(root, "EM_NONE", e) for e in ("Big", "Little")}
    r.decide(set(other.values()) == {"Err"}, "elf_machine|other", db.where(hb), "an unlisted e_machine must be rejected, it selects %s" % other)
    for em, w in want.items():
        r.decide(got.get(em) == w, "elf_machine|%s" % em, db.where(hb), "%s selects %s, expected %s" % (em, got.get(em), w))


MANIFEST = {
    "technique": "static analysis: exhaustive extraction and cross-comparison of constant tables from the type-checked HIR against psABI reference rows",
    "text": "The property quantifies over seven architectures and constant tables only, so it is decided completely: every "
            "calling-convention arm, Architecture impl, lifter register table and the ELF machine table are read from the "
            "current tree and compared with one another and with the ABI reference rows; any disagreement is reported "
            "with the table row. Nothing about run-time behaviour is assumed.",
    "note": "Trusted: rustc nightly HIR; the hand-transcribed psABI reference rows in fv/props/c20.py (System V i386/x86-64, "
            "MIPS o32, PPC32 SVR4, AAPCS64); the lifter's scalar universe = full-register rows of its table plus scalar "
            "literals in its source files.",
}
