"""C17 — stack-pointer offsets.

Decided: no IL width literal in the analysis, the entry seed has the stack pointer's width (R1); offsets are
read back signed (R2); transfer arms: assignment to SP substitutes and evaluates, load into SP gives Top,
other operations leave it (R3); the 3-point lattice order and join tables (R4); only the function entry is
seeded with 0 (R5); every architecture's stack pointer descriptor has the architecture's word size (R6);
completion (R7). Not decided: that the evaluated offset equals the run-time difference (arithmetic of C04).
"""
from armlib import arm_table, last_seg, main_match, unq
from db import callee, int_lit, mir_callee, mir_calls, walk
from mirterm import Terms, bodies_under, calls_in, show, subterms, terms_of
import lattice
import optval
import panics

FILE = "analysis/stack_pointer_offsets.rs"
OP = "il::operation::Operation"
IO = "analysis::stack_pointer_offsets::IntermediateOffset"
SPA = "analysis::stack_pointer_offsets::StackPointerOffsetAnalysis"
IL_WIDTH_FNS = {"il::const_": 1, "il::expr_const": 1, "il::scalar": 1, "il::expr_scalar": 1,
                "il::constant::Constant::new": 1, "il::scalar::Scalar::new": 1}


def run(db, rep, feat, tier):
    rep.explanation = (
        "Static rules over HIR/MIR of lib/analysis/stack_pointer_offsets.rs and lib/architecture.rs: every IL value "
        "built by the analysis takes its width from the stack-pointer scalar (no width literal); the reported isize "
        "derives from the sign-extending accessor; handle_operation's arms per Operation variant; the order and join "
        "tables of Top/Value/Bottom evaluated on the patterns for all 10 + 10 cases; only the function-entry location is "
        "seeded; each Architecture impl's stack_pointer() has word_size() bits; reachable panic sites. Numerical "
        "equality of the offset with the run-time difference is the evaluator's arithmetic (C04), not decided here.")
    r1_r2(db, rep)
    r3(db, rep)
    r4(db, rep)
    r5(db, rep)
    r6(db, rep)
    # the analysis decides `all_constants` before evaluating: that traversal must visit every operand (C04.R1)
    import props.c04 as c04
    from armlib import variants_of
    variants = variants_of(db, c04.EXPR)
    vinfo = {last_seg(v): info for v, info in variants}
    before = len(rep.rules)
    c04.r1(db, rep, variants, vinfo)
    for rr in rep.rules[before:]:
        rr.id = "R8." + rr.id
        rr.floors = []
        for i in rr.instances:
            i["key"] = "R8." + i["key"]
            i["rule"] = rr.id
    # the analysis tracks `architecture.stack_pointer()`: that scalar must be the one the lifter writes (C20.R3), and the
    # solver it runs on must re-schedule a location whenever its input may have changed (C09.R2/R5)
    import props.c20 as c20
    import props.c09 as c09
    saved_expl = rep.explanation
    for pref, fn_ in (("R9.", lambda: c20.run(db, rep, feat, tier)), ("R10.", lambda: (c09.r2(db, rep), c09.r5(db, rep, {})))):
        before = len(rep.rules)
        fn_()
        for rr in rep.rules[before:]:
            rr.id = pref + rr.id
            rr.floors = []
            for i in rr.instances:
                i["key"] = pref + i["key"]
                i["rule"] = rr.id
    rep.explanation = saved_expl
    r7 = rep.rule("R7", "K8", "no undischarged panic site reachable from stack_pointer_offsets()")
    panics.reach_rule(db, rep, r7, ["analysis::stack_pointer_offsets::stack_pointer_offsets"],
                      scope_prefixes=("analysis::stack_pointer_offsets", "<analysis::stack_pointer_offsets"))


def r1_r2(db, rep):
    r1 = rep.rule("R1", "K9", "architecture-generic widths: no IL constructor in the analysis receives a literal width; "
                  "the entry seed is a zero of stack_pointer.bits() bits")
    r2 = rep.rule("R2", "K9", "the reported offset is read with the sign-extending accessor (value_i64), not from the "
                  "zero-extended value")
    n = 0
    seed_ok = None
    for d in db.mir.in_file(FILE):
        if "::tests::" in d:
            continue
        body = db.mir[d]
        rep.analysed(d)
        tm = None
        k = 0
        for i, t in mir_calls(body):
            c = mir_callee(t) or ""
            if c in IL_WIDTH_FNS:
                tm = tm or Terms(body, db)
                w = tm.operand(t["args"][IL_WIDTH_FNS[c]])
                lit = w[0] == "const"
                r1.decide(not lit, "%s|width|%d" % (d, k), db.where(body, t["l"]),
                          "%s is given the literal width %s (the stack pointer is 64 bits wide on amd64/aarch64)" % (
                              last_seg(c), w[1] if lit else ""))
                if c == "il::const_":
                    from_sp = any(last_seg(x[1]) == "bits" and "Scalar" in x[1] for x in calls_in(w))
                    seed_ok = from_sp if seed_ok is None else (seed_ok and from_sp)
                k += 1
                n += 1
            if last_seg(c) in ("value_u64", "value_i64", "value_u128") and "Constant" in c:
                tm = tm or Terms(body, db)
                r2.decide(last_seg(c) == "value_i64", "%s|readback" % d, db.where(body, t["l"]),
                          "offset read back with %s: a negative offset of a narrow stack pointer becomes a huge positive number" % last_seg(c))
    r1.decide(bool(seed_ok), "entry_seed|width_from_stack_pointer", "", "the entry seed's width does not derive from the stack-pointer scalar")
    r2.floor(1, "from_intermediate")


def r3(db, rep):
    r = rep.rule("R3", "K4", "handle_operation: Assign to the stack pointer substitutes the current offset and "
                 "evaluates (Top if not constant), Load into the stack pointer gives Top, everything else keeps the offset")
    fn = SPA + "::handle_operation"
    hb = db.hir.get(fn)
    rep.anchor(hb is not None, fn)
    rep.analysed(fn)
    m = main_match(hb, OP)
    rep.anchor(m is not None, "match over Operation")
    seen = set()
    for a in arm_table(m):
        cs = {last_seg(c) for c in a.callees()}
        tops = any(x.get("k") == "Path" and last_seg(x["res"].get("ctor_of", "") or "") == "Top" for x in walk(a.body))
        vs = [last_seg(v) for v in a.variants]
        w = db.where(hb, a.line)
        for v in vs:
            seen.add(v)
            if v == "Assign":
                r.decide({"replace_scalar", "eval", "all_constants"} <= cs and tops, "handle|Assign", w,
                         "assignment to the stack pointer must substitute, test all_constants and evaluate (callees %s)" % sorted(cs))
            elif v == "Load":
                r.decide(tops and "eval" not in cs, "handle|Load", w, "a load into the stack pointer must give Top")
        if a.wild:
            b = unq(a.body)
            r.decide(b.get("k") == "Path" and "local" in b["res"], "handle|other", w, "other operations must keep the offset")
    for v in ("Assign", "Load"):
        if v not in seen:
            r.bad("handle|%s" % v, db.where(hb), "no arm for %s" % v)


def r4(db, rep):
    r = rep.rule("R4", "K4", "lattice tables of IntermediateOffset evaluated on the patterns: order Top > Value > Bottom "
                 "with distinct values incomparable; join: equal values stay, distinct values and anything with Top "
                 "give Top, Bottom is neutral")
    fn = "<%s as std::cmp::PartialOrd>::partial_cmp" % IO
    hb = db.hir.get(fn)
    rep.anchor(hb is not None, fn)
    lattice.check_table(r, db, hb, "partial_cmp", lattice.three_point_cmp_cases(),
                        lambda args: lattice.ordering_of(lattice.eval_fn(hb, args)))
    jn = [k for k in db.hir.keys() if k.startswith("<" + SPA) and k.endswith("::join")]
    rep.anchor(len(jn) == 1, "join of the stack pointer analysis")
    jb = db.hir[jn[0]]
    a, b = optval.sym("a"), optval.sym("b")
    V = lattice.V
    T_, B_ = V("Top"), V("Bottom")
    cases = [("Top+Top", (T_, T_), T_), ("Top+Value", (T_, V("Value", a)), T_), ("Top+Bottom", (T_, B_), T_),
             ("Value+Top", (V("Value", a), T_), T_), ("Value(a)+Value(a)", (V("Value", a), V("Value", a)), V("Value", a)),
             ("Value(a)+Value(b)", (V("Value", a), V("Value", b)), T_), ("Value+Bottom", (V("Value", a), B_), V("Value", a)),
             ("Bottom+Top", (B_, T_), T_), ("Bottom+Value", (B_, V("Value", b)), V("Value", b)), ("Bottom+Bottom", (B_, B_), B_)]

    def runj(args):
        v = lattice.eval_fn(jb, (optval.sym("self"),) + tuple(args))
        if v[0] == "ok":
            return v[1]
        return "?"
    lattice.check_table(r, db, jb, "join", cases, runj, show=lambda x: optval.show(x) if isinstance(x, tuple) else x)


def r5(db, rep):
    r = rep.rule("R5", "K4", "seeding: a location without incoming state gets Value(0) only if it is the function entry "
                 "location, Top otherwise")
    tr = [k for k in db.hir.keys() if k.startswith("<" + SPA) and k.endswith("::trans")]
    rep.anchor(len(tr) == 1, "trans of the stack pointer analysis")
    hb = db.hir[tr[0]]
    ok = False
    for n in walk(hb["body"]):
        if n.get("k") == "If":
            c = unq(n["c"])
            if c.get("k") == "Binary" and c.get("op") == "Eq":
                names = {last_seg(callee(x) or "") for x in walk(hb["body"])}
                then_val = any(last_seg(x.get("fn", {}).get("ctor_of", "") or "") == "Value" for x in walk(n["then"]) if x.get("k") == "Call")
                else_top = any(x.get("k") == "Path" and last_seg(x["res"].get("ctor_of", "") or "") == "Top" for x in walk(n.get("else", {})))
                ok = then_val and else_top and "from_function" in names
    r.decide(ok, "trans|seed", db.where(hb), "entry seeding must be conditional on location == function entry")


def r6(db, rep):
    r = rep.rule("R6", "K2", "every Architecture impl: stack_pointer() is a scalar of word_size() bits")
    n = 0
    impls = {}
    for k in db.hir.keys():
        if k.startswith("<architecture::") and " as architecture::Architecture>::" in k:
            ty = k[1:k.index(" as ")]
            impls.setdefault(ty, {})[last_seg(k)] = db.hir[k]
    for ty, fs in sorted(impls.items()):
        sp, ws = fs.get("stack_pointer"), fs.get("word_size")
        if not sp or not ws:
            continue
        spw = None
        for x in walk(sp["body"]):
            if callee(x) in ("il::scalar",):
                spw = int_lit(x["args"][1])
        wsv = int_lit(unq(ws["body"]).get("expr", ws["body"])) if True else None
        for x in walk(ws["body"]):
            if x.get("k") == "Lit":
                wsv = x["v"].get("int")
        n += 1
        rep.analysed(sp["def"])
        if spw is None or wsv is None:
            r.open("%s|sp_width" % ty, db.where(sp), "not literal")
        else:
            r.decide(spw == wsv, "%s|sp_width" % ty, db.where(sp),
                     "%s: stack pointer has %s bits, word size is %s" % (ty, spw, wsv))
    r.floor(7, "seven architectures")


MANIFEST = {
    "technique": "static analysis: width/sign provenance on MIR terms, finite-case evaluation of the lattice tables, per-variant arm rules, descriptor table agreement",
    "text": "Decides on every run that the analysis is architecture-generic (no width literal; seed of stack_pointer.bits() "
            "bits), reports offsets through the sign-extending accessor, treats assignment/load/other operations as the "
            "property requires, has the right order and join tables (all cases enumerated on the patterns), seeds only the "
            "entry, that every architecture's stack pointer has word-size width, and that no undischarged panic is "
            "reachable. It does not decide the arithmetic of the evaluated offset (C04) or solver least-ness (C09).",
    "note": "Trusted: rustc nightly HIR/MIR; opaque distinct symbols stand for distinct constants in the table evaluation.",
}
