"""C13 — constant propagation.

Decided: the transfer function handles every writer (R1), the value lattice order and the state join (R2),
top() forgets values without forgetting scalars (R2c), completion: reachable panic sites and total remapping
(R3), the remap reads predecessors' states (R4), the solver rules it depends on (R5 = C09). Not decided:
soundness over loops as such (that is the solver's least-fixed-point argument).
"""
from armlib import arm_table, last_seg, main_match, unq, select_arm
from db import callee, mir_callee, mir_calls, walk, strip
from mirterm import bodies_under, calls_in, show, terms_of
import lattice
import optval
import panics

ANALYSIS = "<analysis::constants::ConstantsAnalysis as analysis::fixed_point::FixedPointAnalysis<'r, analysis::constants::Constants>>"
OP = "il::operation::Operation"
CONSTS = "analysis::constants::Constants"


def run(db, rep, feat, tier):
    rep.explanation = (
        "Static rules over HIR/MIR of lib/analysis/constants.rs: per-Operation arms of the transfer function (Assign "
        "evaluates and falls back to Top without propagating evaluation errors, Load and declared intrinsic writes "
        "become Top, Branch and undeclared intrinsics call top(), Store/Nop leave the state); the 3x3 order table of "
        "the value lattice evaluated on the patterns; join sends unequal values to Top; top() assigns Top to every "
        "entry and removes none; the remap to in-states reads each predecessor's state with a total lookup; panic "
        "sites reachable from constants() and Constants::eval; plus the fixed-point solver rules of C09 on which "
        "soundness rests. It does not decide numeric correctness of eval (C04) nor least-ness of the solution.")
    trans = ANALYSIS + "::trans"
    rep.anchor(trans in db.hir, trans)
    r1(db, rep, trans)
    r2(db, rep)
    r3_r4(db, rep)
    r6(db, rep)
    # the solver this analysis runs on
    import props.c09 as c09
    sub = rep.rule("R5", "K6", "solver discipline inherited from C09 (ordering outcomes, work-list pairing, complete "
                   "neighbour join)")
    before = len(rep.rules)
    c09.r2(db, rep)
    cache = {}
    c09.r5(db, rep, cache)
    for rr in rep.rules[before:]:
        rr.id = "R5." + rr.id
        for i in rr.instances:
            i["key"] = "R5." + i["key"]
            i["rule"] = rr.id
    sub.ok("inherits", "", "see R5.R2 / R5.R5")


def r1(db, rep, trans):
    r = rep.rule("R1", "K4", "transfer function per Operation variant: Assign -> set_scalar(dst, eval(src) or Top) "
                 "with no error propagation; Load -> set_scalar(dst, Top); Store/Nop -> unchanged; Branch -> top(); "
                 "Intrinsic -> declared writes to Top, undeclared -> top()")
    from armlib import main_match_in_unit
    rep.analysed(trans)
    m, hb = main_match_in_unit(db, db.hir[trans], OP)
    rep.anchor(m is not None, "match over Operation in trans")
    seen = set()
    for a in arm_table(m):
        cs = [last_seg(c) for c in a.callees()]
        tops = any(x.get("k") == "Path" and last_seg(x["res"].get("ctor_of", "") or x["res"].get("def", "") or "") == "Top"
                   for x in walk(a.body))
        tries = [x for x in walk(a.body) if x.get("k") == "Match" and x.get("src") == "Try"]
        for v in a.variants:
            v = last_seg(v)
            seen.add(v)
            key = "trans|%s" % v
            w = db.where(hb, a.line)
            if a.wild:
                r.bad(key, w, "wildcard arm")
            elif v == "Assign":
                ok = "set_scalar" in cs and "eval" in cs and tops and "unwrap_or" in cs and not tries
                r.decide(ok, key, w, "Assign must record eval(src) or Top and never abort the analysis "
                         "(callees %s, error propagation: %s)" % (sorted(set(cs)), bool(tries)))
            elif v == "Load":
                r.decide("set_scalar" in cs and tops and "eval" not in cs, key, w, "Load must send dst to Top")
            elif v in ("Store", "Nop"):
                r.decide(not ({"set_scalar", "top"} & set(cs)), key, w, "%s must leave the state unchanged" % v)
            elif v == "Branch":
                r.decide("top" in cs, key, w, "an indirect branch must forget every value")
            elif v == "Intrinsic":
                r.decide("top" in cs and "set_scalar" in cs and "scalars_written" in cs and tops, key, w,
                         "Intrinsic must send declared writes to Top and forget everything when effects are undeclared")
    for v in ("Assign", "Load", "Store", "Branch", "Intrinsic", "Nop"):
        if v not in seen:
            r.bad("trans|%s" % v, db.where(hb), "no arm for %s" % v)


def r2(db, rep):
    r = rep.rule("R2", "K4", "value lattice: Top > Constant > Bottom, two constants are Equal iff equal and "
                 "incomparable otherwise (3x3 table evaluated on the patterns); Constants::join sends a scalar with "
                 "unequal values to Top and keeps scalars known on one side; top() assigns Top to every entry and "
                 "removes none")
    fn = "<analysis::constants::Constant as std::cmp::PartialOrd>::partial_cmp"
    hb = db.hir.get(fn)
    rep.anchor(hb is not None, fn)
    rep.analysed(fn)
    lattice.check_table(r, db, hb, "Constant::partial_cmp", lattice.three_point_cmp_cases(val="Constant"),
                        lambda args: lattice.ordering_of(lattice.eval_fn(hb, args)))
    # join
    jb = db.hir.get(CONSTS + "::join")
    rep.anchor(jb is not None, "Constants::join")
    rep.analysed(jb["def"])
    ok = False
    for n in walk(jb["body"]):
        if n.get("k") == "Match" and n.get("src") == "Normal":
            sc = unq(n["scrut"])
            if sc.get("k") == "MethodCall" and sc["name"] == "get":
                i_some, i_none = select_arm(n, ("Some", ("c",))), select_arm(n, ("None",))
                if i_some is None or i_none is None:
                    continue
                some_body, none_body = n["arms"][i_some]["body"], n["arms"][i_none]["body"]
                ne_top = False
                for x in walk(some_body):
                    if x.get("k") == "If" and unq(x["c"]).get("k") == "Binary" and unq(x["c"]).get("op") == "Ne":
                        sets_top = any(last_seg(callee(y) or "") == "set_scalar" for y in walk(x["then"])) and any(
                            y.get("k") == "Path" and last_seg(y["res"].get("ctor_of", "") or "") == "Top" for y in walk(x["then"]))
                        ne_top = sets_top and "else" not in x
                keep = any(last_seg(callee(y) or "") == "set_scalar" for y in walk(none_body)) and any(
                    last_seg(callee(y) or "") == "clone" for y in walk(none_body))
                ok = ne_top and keep
    r.decide(ok, "Constants::join", db.where(jb), "join must map unequal values to Top and copy one-sided entries")
    # top()
    tb = db.mir.get(CONSTS + "::top")
    rep.anchor(tb is not None, "Constants::top")
    bad = []
    sets_top = False
    for d in bodies_under(db, CONSTS + "::top"):
        body = db.mir[d]
        for i, t in mir_calls(body):
            n = last_seg(t.get("f") or "")
            if "HashMap" in (t.get("f") or "") and n in ("clear", "remove", "retain", "drain", "new", "insert"):
                bad.append(n)
        for blk in body["blocks"]:
            for s in blk["s"]:
                rv = s.get("rv")
                if rv and rv["k"] == "Aggregate" and rv.get("variant", "").endswith("Constant::Top"):
                    sets_top = True
    r.decide(not bad and sets_top, "Constants::top", db.where(tb),
             "top() must assign Top to every present entry; it calls %s / assigns Top: %s" % (bad, sets_top))


def r6(db, rep):
    from db import pat_leaves, pat_path, strip
    r = rep.rule("R6", "K5", "the state order is the pointwise order of the smaller map inside the bigger one: the Less and the Greater "
                 "branch of Constants::partial_cmp are mirror images under self <-> other - each iterates the map with fewer "
                 "entries, looks every key up in the other one and requires entry(smaller) <= entry(bigger)")
    fn = "<analysis::constants::Constants as std::cmp::PartialOrd>::partial_cmp"
    hb = db.hir.get(fn)
    rep.anchor(hb is not None, fn)
    ms = [n for n in walk(hb["body"]) if n.get("k") == "Match" and n.get("src") == "Normal"]
    rep.anchor(bool(ms), "match on the length comparison")
    params = [p.get("name") for p in hb["params"]]

    def owner(e):
        # `X.constants...` -> X
        for x in walk(e):
            if x.get("k") == "Field" and x.get("name") == "constants":
                b = strip(x["e"])
                while b.get("k") in ("Unary", "AddrOf"):
                    b = strip(b["e"])
                if b.get("k") == "Path" and "local" in b.get("res", {}):
                    return b["res"]["local"]
        return None

    def info(body_e, own, depth=0):
        """(iterated map's owner, looked-up map's owner, comparison) of a pointwise-order loop / quantifier in body_e; the loop
        may sit in a private helper that receives the two maps (owners are then mapped through the call's arguments)."""
        loops = [x for x in walk(body_e) if x.get("k") == "Match" and x.get("src") == "For"]
        it_owner = own(loops[0]["scrut"]) if loops else None
        if it_owner is None:
            quant = [x for x in walk(body_e) if x.get("k") == "MethodCall" and x.get("name") == "all"]
            it_owner = own(quant[0]["recv"]) if quant else None
        gets = [x for x in walk(body_e) if x.get("k") == "MethodCall" and x.get("name") == "get"]
        get_owner = own(gets[0]["recv"]) if gets else None
        op = None
        for c in [x for x in walk(body_e) if x.get("k") == "Closure"]:
            for x in walk(c["body"]):
                if x.get("k") == "Binary" and x["op"] in ("Le", "Ge", "Lt", "Gt"):
                    l_ = strip(x["a"])
                    cparams = {p.get("name") for p in c.get("params", []) if p.get("k") == "Bind"}
                    o = x["op"]
                    if l_.get("k") == "Path" and l_.get("res", {}).get("local") in cparams:       # normalise to  iterated OP looked-up
                        o = {"Le": "Ge", "Ge": "Le", "Lt": "Gt", "Gt": "Lt"}[o]
                    op = o
        if it_owner is None and get_owner is None and depth < 2:
            for x in walk(body_e):
                h = db.hir.get(callee(x) or "") if x.get("k") in ("Call", "MethodCall") else None
                if h is None or not h.get("file", "").endswith("constants.rs"):
                    continue
                args = ([x["recv"]] if x.get("k") == "MethodCall" else []) + list(x["args"])
                pn = [p_.get("name") for p_ in h.get("params", [])]
                if len(pn) != len(args):
                    continue
                amap = {pn[i]: own(args[i]) for i in range(len(args))}

                def own2(e, amap=amap):
                    for y in walk(e):
                        if y.get("k") == "Path" and y.get("res", {}).get("local") in amap and amap[y["res"]["local"]]:
                            return amap[y["res"]["local"]]
                    return None
                sub = info(h["body"], own2, depth + 1)
                if sub[0] is not None:
                    return sub
        return (it_owner, get_owner, op)

    got = {}
    for a in ms[0]["arms"]:
        names = {last_seg(pat_path(p) or "") for p in pat_leaves(a["pat"])}
        if names not in ({"Less"}, {"Greater"}):
            continue
        br = next(iter(names))
        it_owner, get_owner, op = info(a["body"], owner)
        rets = {last_seg(x.get("res", {}).get("def", "") or "") for x in walk(a["body"]) if x.get("k") == "Path"} & {"Less", "Greater", "Equal"}
        got[br] = (it_owner, get_owner, op, rets)
    want = {"Less": ("self", "other", "Le", {"Less"}), "Greater": ("other", "self", "Le", {"Greater"})}
    for br in ("Less", "Greater"):
        g = got.get(br)
        r.decide(g == want[br], "partial_cmp|%s" % br, db.where(hb),
                 "the %s branch iterates %s, looks up in %s, requires entry(iterated) %s entry(looked up) and answers %s; "
                 "expected %s" % ((br,) + tuple(g or (None, None, None, None)) + (want[br],)))


def r3_r4(db, rep):
    r4 = rep.rule("R4", "K9", "constants(): the state reported for a location is the join of the solver states of its "
                  "backward() neighbours, read with a total lookup (a neighbour without state contributes nothing)")
    fn = "analysis::constants::constants"
    rep.anchor(fn in db.mir, fn)
    cache = {}
    reads = 0
    for d in bodies_under(db, fn):
        body = db.mir[d]
        tm = terms_of(db, d, cache)
        for i, t in mir_calls(body):
            f = t.get("f") or ""
            fg = t.get("fg", "")
            if "ProgramLocation" in fg and "Constants" in fg and "HashMap" in fg + f and last_seg(f) in ("get", "index"):
                reads += 1
                key_t = tm.operand(t["args"][1])
                derived = any(last_seg(c[1]) == "backward" for c in calls_in(key_t)) or any(
                    x[0] == "carg" and any(last_seg(c[1]) == "backward" for c in calls_in(x[2])) for x in [key_t] if x[0] == "carg")
                total = last_seg(f) == "get"
                r4.decide(derived and total, "constants|read|%d" % (reads - 1), db.where(body, t["l"]),
                          "solver result read with %s at a key %s" % ("a panicking index" if not total else "get",
                                                                      "not derived from backward()" if not derived else "ok"))
    rep.anchor(reads >= 1, "read of the solver result in constants()")
    r3 = rep.rule("R3", "K8", "no undischarged panic site is reachable from constants() or Constants::eval")
    panics.reach_rule(db, rep, r3, [fn, CONSTS + "::eval", CONSTS + "::scalar"],
                      scope_prefixes=("analysis::constants", "<analysis::constants"), site_allow=SITE_ALLOW)


SITE_ALLOW = {
    "analysis::constants::constants|unwrap@il::location::FunctionLocation::apply|0":
        "the location is a key of the solver's result for this very function, so it applies to it",
    CONSTS + "::eval::{closure#0}::{closure#0}|unwrap@il::expression::Expression::replace_scalar|0":
        "the replacement constant was recorded for this exact scalar (name, width, version) from an assignment of an "
        "expression of the scalar's width, so every rebuilt node keeps its sort",
}

MANIFEST = {
    "technique": "static analysis: per-variant arm rules on HIR, finite-case evaluation of the lattice order, MIR def-use provenance, call-graph panic reachability",
    "text": "Decides the structural obligations of the constants analysis on every run: each Operation variant is handled "
            "as soundness requires (in particular evaluation errors become Top rather than aborting, and indirect branches / "
            "undeclared intrinsics forget everything by writing Top into every entry), the value lattice's order table, "
            "join-to-Top, the total remap from predecessors' states, reachable panic sites, and the solver rules it runs "
            "on. It does not decide that eval computes the right number (C04) or that the fixed point is least (C09 clauses).",
    "note": "Trusted: rustc nightly HIR/MIR; two reasoned allow-list entries (fv/props/c13.py).",
}
