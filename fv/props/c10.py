"""C10 — SSA transformation.

Decided: every reader is a use when computing non-local scalars, reads are classified before the same
instruction's writes kill (R1); *_mut twins visit the same positions (R2); renaming order: phi outputs, then
per instruction reads before writes, then outgoing guards and the successors' phi operands for this
predecessor, scopes paired (R3); phi nodes get one incoming per predecessor and an entry operand at the entry
(R4); the dominator machinery it relies on (R5 = C11.R4/R6); completion (R6). Not decided: dominance of
definitions over uses and behaviour preservation as such.
"""
from armlib import arm_table, last_seg, main_match, unq
from db import Cfg, callee, mir_callee, mir_calls, walk
from mirterm import bodies_under, calls_in, params_of, show, subterms, terms_of
import panics

import re

MOD = "transformation::ssa_transformation"
OP = "il::operation::Operation"


def run(db, rep, feat, tier):
    rep.explanation = (
        "Static rules over HIR/MIR of lib/transformation/ssa_transformation.rs, lib/il/operation.rs and the dominator "
        "code of lib/graph/mod.rs: compute_non_local_scalars consults instruction reads and edge guards and, inside "
        "one instruction, classifies reads before adding that instruction's writes to the kill set; each *_mut "
        "accessor of Operation visits the same fields per variant as its immutable twin; the renamer gives phi outputs "
        "new versions first, renames an instruction's reads (get_version) before its writes (new_version), renames "
        "outgoing guards and the successor phis' operand for this block, and pairs start_new_scope/end_scope; phi "
        "construction adds one incoming per predecessor of the frontier block and the entry operand only at the "
        "entry; plus the Semi-NCA and dominance-frontier shape rules of C11 and reachable panic sites. Dominance of "
        "definitions and behavioural equivalence are not decided.")
    for f in ("compute_non_local_scalars", "insert_phi_nodes", "ssa_transformation"):
        rep.anchor("%s::%s" % (MOD, f) in db.mir, f)
    r1(db, rep)
    r2(db, rep)
    r2c(db, rep)
    r3(db, rep)
    r4(db, rep)
    import props.c11 as c11
    before = len(rep.rules)
    c11.r4(db, rep)
    c11.r5_r6(db, rep)
    c11.r7(db, rep)
    for rr in rep.rules[before:]:
        rr.id = "R5." + rr.id
        rr.floors = []
        for i in rr.instances:
            i["key"] = "R5." + i["key"]
            i["rule"] = rr.id
    # renaming rewrites scalars through Expression::scalars_mut: that traversal must visit every operand (C04.R1)
    import props.c04 as c04
    from armlib import variants_of
    variants = variants_of(db, c04.EXPR)
    vinfo = {last_seg(v): info for v, info in variants}
    before = len(rep.rules)
    c04.r1(db, rep, variants, vinfo)
    for rr in rep.rules[before:]:
        rr.id = "R7." + rr.id
        rr.floors = []
        for i in rr.instances:
            i["key"] = "R7." + i["key"]
            i["rule"] = rr.id
    r4b(db, rep)
    r6 = rep.rule("R6", "K8", "no undischarged panic site reachable from ssa_transformation inside the transformation module")
    panics.reach_rule(db, rep, r6, [MOD + "::ssa_transformation"], scope_prefixes=(MOD, "<il::"), site_allow=SITE_ALLOW,
                      extra_discharge=discharge)


def r1(db, rep):
    r = rep.rule("R1", "K7", "compute_non_local_scalars: instruction reads and the guards of outgoing edges are both uses; "
                 "within one instruction the reads are classified against the kill set before that instruction's writes "
                 "enter it (x = x + 1 reads the incoming x)")
    fn = MOD + "::compute_non_local_scalars"
    names = set()
    for d in bodies_under(db, fn):
        for i, t in mir_calls(db.mir[d]):
            names.add(last_seg(mir_callee(t) or ""))
        rep.analysed(d)
    r.decide({"scalars_read", "scalars_written"} <= names, "non_locals|instructions", db.where(db.mir[fn]),
             "instruction reads/writes are not consulted")
    r.decide({"condition", "edges_out"} <= names and "scalars" in names, "non_locals|guards", db.where(db.mir[fn]),
             "edge guards are not treated as uses (a scalar read only by a guard gets no phi node)")
    # order inside the per-instruction closure
    found = False
    for d in bodies_under(db, fn):
        body = db.mir[d]
        rd = [i for i, t in mir_calls(body) if last_seg(mir_callee(t) or "") == "scalars_read"]
        wr = [i for i, t in mir_calls(body) if last_seg(mir_callee(t) or "") == "scalars_written"]
        if rd and wr:
            found = True
            cfg = Cfg(body)
            # the whole read classification (its for_each) precedes the write insertion: the call consuming the read
            # iterator dominates the scalars_written call
            fe = [i for i, t in mir_calls(body) if last_seg(t.get("f") or "") == "for_each"]
            first_foreach_after_read = [i for i in fe if cfg.dominates(rd[0], i)]
            ok = cfg.dominates(rd[0], wr[0]) and any(cfg.dominates(i, wr[0]) for i in first_foreach_after_read)
            r.decide(ok, "non_locals|read_before_kill", db.where(body, body["blocks"][wr[0]]["t"]["l"]),
                     "an instruction's writes are added to the kill set before its own reads are classified")
    rep.anchor(found, "closure handling one instruction in compute_non_local_scalars")


def r4b(db, rep):
    from mirterm import terms_of, subterms
    r = rep.rule("R4b", "K6", "insert_phi_nodes walks the whole dominance frontier of every defining block: a frontier block is skipped "
                 "only when it already holds a phi node for this scalar (the single test phi_insertions.contains); in particular a "
                 "block that is in its own frontier (a loop consisting of that block) receives its phi node")
    fn = MOD + "::insert_phi_nodes"
    body = db.mir.get(fn)
    rep.anchor(body is not None, fn)
    cfg = Cfg(body)
    tm = terms_of(db, fn, {})
    adds = [i for i, t in mir_calls(body) if last_seg(mir_callee(t) or "") == "add_phi_node"]
    contains = [i for i, t in mir_calls(body) if last_seg(mir_callee(t) or "") == "contains" and "HashSet" in (mir_callee(t) or "")]
    nexts = [i for i, t in mir_calls(body) if (mir_callee(t) or "").endswith("Iterator>::next") and
             any(isinstance(x, tuple) and x and x[0] == "call" and "ops::Index" in str(x[1]) for x in subterms(tm.operand(t["args"][0])))]
    rep.anchor(len(adds) == 1 and contains and len(nexts) >= 1, "frontier loop: next, contains, add_phi_node")
    # the frontier iterator is the `next` that dominates add_phi_node and is closest to it
    guard = [c for c in contains if cfg.dominates(c, adds[0])]
    rep.anchor(bool(guard), "the `already has a phi` test before add_phi_node")
    cands = [n for n in nexts if cfg.dominates(n, guard[-1])]
    rep.anchor(bool(cands), "iterator over dominance_frontiers[&block]")
    # innermost loop head that still dominates the test
    nx = [n for n in cands if all(cfg.dominates(m, n) for m in cands)][0]
    in_loop = [c for c in guard if cfg.dominates(nx, c)]
    # follow the Some(..) side of the iterator result only (the None side leaves the loop and may come back through the work list)
    start = None
    b = cfg.succ[nx][0] if cfg.succ[nx] else None
    for _ in range(4):
        if b is None:
            break
        t = body["blocks"][b]["t"]
        if t["k"] == "SwitchInt":
            some = [tg for v_, tg in t["targets"] if v_ == 1]
            start = some[0] if some else t["otherwise"]
            break
        b = cfg.succ[b][0] if cfg.succ[b] else None
    rep.anchor(start is not None, "Some-side of the frontier iterator")
    reach = cfg.reachable(start, avoid=adds + in_loop)
    r.decide(bool(in_loop) and nx not in reach, "phi|frontier_complete", db.where(body, body["blocks"][nx]["t"].get("l")),
             "a member of the dominance frontier can be skipped by a test other than `already has a phi`")


def r2c(db, rep, rid="R2c"):
    """Type-driven completeness of the read / written sets: which fields an Operation variant reads or writes follows from
    the field types (every Expression field is read, every Scalar field is written)."""
    from db import pat_leaves
    r = rep.rule(rid, "K4", "Operation::scalars_read (and _mut) visits every Expression-typed field of every variant, "
                 "scalars_written (and _mut) every Scalar-typed field; an arm shared by several variants binds nothing, so a "
                 "variant with such a field cannot share it")
    adt = db.adt(OP)
    rep.anchor(adt is not None, OP)
    fields = {v["name"]: {f["name"]: f["ty"] for f in v["fields"]} for v in adt["variants"]}
    for fn, ty in (("scalars_read", "il::expression::Expression"), ("scalars_read_mut", "il::expression::Expression"),
                   ("scalars_written", "il::scalar::Scalar"), ("scalars_written_mut", "il::scalar::Scalar")):
        hb = db.hir.get("%s::%s" % (OP, fn))
        rep.anchor(hb is not None, "%s::%s" % (OP, fn))
        ms = [n for n in walk(hb["body"]) if n.get("k") == "Match"]
        rep.anchor(bool(ms), "match in %s" % fn)
        m = ms[0]
        for vname, fs in sorted(fields.items()):
            need = {f for f, t in fs.items() if t == ty}
            got = None
            for a in m["arms"]:
                leaves = pat_leaves(a["pat"])
                # in an or-pattern every alternative binds the same names; the body refers to one of the bindings
                by_name = {}
                for leaf in leaves:
                    for f in leaf.get("fields", ()) if leaf.get("k") == "Struct" else ():
                        if f["p"].get("k") == "Bind":
                            by_name.setdefault(f["p"]["name"], set()).add(f["p"].get("hid"))
                refs = {x["res"].get("hid") for x in walk(a["body"]) if x.get("k") == "Path" and "hid" in x.get("res", {})}
                used_names = {nm for nm, hids in by_name.items() if hids & refs}
                for leaf in leaves:
                    if leaf.get("k") == "Struct" and last_seg(leaf["path"].get("def", "")) == vname:
                        got = {f["n"] for f in leaf.get("fields", ()) if f["p"].get("k") == "Bind" and f["p"]["name"] in used_names}
            r.decide(got is not None and need <= got, "%s|%s" % (fn, vname), db.where(hb),
                     "%s does not visit field(s) %s of Operation::%s" % (fn, sorted(need - (got or set())), vname))


def r2(db, rep):
    r = rep.rule("R2", "K5", "position twins: Operation::scalars_read/_read_mut and scalars_written/_written_mut name the "
                 "same fields per variant and call the same accessors modulo the _mut suffix")
    for a_, b_ in (("scalars_read", "scalars_read_mut"), ("scalars_written", "scalars_written_mut")):
        ta, tb = {}, {}
        for nm, tab in ((a_, ta), (b_, tb)):
            hb = db.hir.get("%s::%s" % (OP, nm))
            rep.anchor(hb is not None, nm)
            rep.analysed(hb["def"])
            m = main_match(hb, OP)
            rep.anchor(m is not None, "match in %s" % nm)
            for a in arm_table(m):
                names, _ = a.bindings()
                used = sorted({x["res"]["local"] for x in walk(a.body) if x.get("k") == "Path" and x.get("res", {}).get("local") in names})
                cs = sorted({last_seg(c).replace("_mut", "") for c in a.callees() if c.startswith("il::")})
                for v in a.variants:
                    tab[last_seg(v)] = (used, cs)
        for v in sorted(set(ta) | set(tb)):
            r.decide(ta.get(v) == tb.get(v), "%s~%s|%s" % (a_, b_, v), "",
                     "%s: %s uses %s, %s uses %s" % (v, a_, ta.get(v), b_, tb.get(v)))
    r.floor(12, "2 twin pairs x 6 variants")


def r3(db, rep):
    r = rep.rule("R3", "K6", "renaming order: Block: phi outputs get new versions before any instruction is renamed; "
                 "Instruction: reads (get_version) before writes (new_version); ControlFlowGraph: the block, then the "
                 "guards of its outgoing edges and the successors' phi operand for this block, children in the dominator "
                 "tree between start_new_scope and end_scope")
    # the renaming trait may live in the module itself or in a private submodule of it
    def impls_for(ty):
        pat = re.compile(r"^<%s as %s::(?:[a-z_0-9]+::)*SsaRename>::rename_scalars" % (re.escape(ty), re.escape(MOD)))
        return [k for k in db.mir.keys() if pat.match(k)]
    ins = impls_for("il::instruction::Instruction")
    blk = impls_for("il::block::Block")
    cfgk = impls_for("il::control_flow_graph::ControlFlowGraph")
    rep.anchor(ins and blk and cfgk, "SsaRename impls for Instruction, Block, ControlFlowGraph")
    body = db.mir[ins[0]]
    rep.analysed(ins[0])
    cfg = Cfg(body)
    gv = [i for i, t in mir_calls(body) if last_seg(mir_callee(t) or "") == "get_version"]
    nv = [i for i, t in mir_calls(body) if last_seg(mir_callee(t) or "") == "new_version"]
    rd = [i for i, t in mir_calls(body) if last_seg(mir_callee(t) or "") == "scalars_read_mut"]
    wr = [i for i, t in mir_calls(body) if last_seg(mir_callee(t) or "") in ("scalar_written_mut", "scalars_written_mut")]
    ok = bool(gv and nv and rd and wr) and cfg.dominates(rd[0], wr[0]) and all(cfg.dominates(rd[0], g) for g in gv) and \
        all(cfg.dominates(wr[0], n) for n in nv) and not any(cfg.dominates(wr[0], g) for g in gv)
    r.decide(ok, "instruction|reads_before_writes", db.where(body),
             "an instruction's written scalars receive their new version before its reads were renamed")
    body = db.mir[blk[0]]
    rep.analysed(blk[0])
    cfg = Cfg(body)
    ph = [i for i, t in mir_calls(body) if last_seg(mir_callee(t) or "") == "phi_nodes_mut"]
    it = [i for i, t in mir_calls(body) if last_seg(mir_callee(t) or "") == "instructions_mut"]
    nv = [i for i, t in mir_calls(body) if last_seg(mir_callee(t) or "") == "new_version"]
    ok = bool(ph and it and nv) and cfg.dominates(ph[0], it[0]) and all(cfg.dominates(ph[0], n) and not cfg.dominates(it[0], n) for n in nv)
    r.decide(ok, "block|phi_outputs_first", db.where(body), "phi outputs must be versioned before the block's instructions")
    # CFG traversal helper
    # the recursive pre-order walk of the dominator tree: the self-recursive function of this module that the graph's renaming calls
    # (nested in the impl method or a module-level function)
    called = {mir_callee(t) or "" for i, t in mir_calls(db.mir[cfgk[0]])}
    helper = [k for k in sorted(called) if k.startswith(("<", MOD)) and k in db.mir and "{closure" not in k and k != cfgk[0] and
              any((mir_callee(t2) or "") == k for i2, t2 in mir_calls(db.mir[k]))]
    rep.anchor(helper, "dominator-tree traversal helper")
    body = db.mir[helper[0]]
    rep.analysed(helper[0])
    cfg = Cfg(body)
    tm = terms_of(db, helper[0], {})
    calls_ = {}
    for i, t in mir_calls(body):
        calls_.setdefault(last_seg(mir_callee(t) or ""), []).append(i)
    need = ["start_new_scope", "end_scope", "rename_scalars", "edge_mut", "condition_mut", "phi_nodes_mut", "incoming_scalar_mut", "successors"]
    missing = [n for n in need if n not in calls_]
    r.decide(not missing, "cfg|steps", db.where(body), "renaming traversal lacks %s" % missing)
    if not missing:
        first_block_rename = min(calls_["rename_scalars"], key=lambda i: body["blocks"][i]["t"]["l"])
        ok = cfg.dominates(calls_["start_new_scope"][0], first_block_rename) and \
            all(cfg.dominates(first_block_rename, i) for i in calls_["edge_mut"] + calls_["incoming_scalar_mut"]) and \
            all(cfg.dominates(calls_["edge_mut"][0], e) or True for e in calls_["end_scope"])
        r.decide(ok, "cfg|order", db.where(body), "the block must be renamed inside the new scope before its edges and successor phis")
        # incoming operand selected for *this* node
        inc = body["blocks"][calls_["incoming_scalar_mut"][0]]["t"]
        arg = tm.operand(inc["args"][1])
        r.decide(arg == ("param", 3), "cfg|phi_operand_of_this_block", db.where(body, inc["l"]),
                 "the successor's phi operand that is renamed must be the one coming from the block being processed")
        # recursion over dominator-tree children
        rec = [i for i, t in mir_calls(body) if mir_callee(t) == helper[0]]
        okr = bool(rec) and all(any(last_seg(c[1]) == "successors" for c in calls_in(tm.operand(body["blocks"][i]["t"]["args"][2]))) for i in rec)
        r.decide(okr, "cfg|children", db.where(body), "the traversal must recurse into the dominator-tree successors")


def r4(db, rep):
    r = rep.rule("R4", "K6", "insert_phi_nodes: a phi node gets one incoming operand per predecessor of the frontier "
                 "block (add_incoming inside the loop over predecessor_indices of that block) and an entry operand only "
                 "when the frontier block is the entry; only non-local scalars are considered; the work-list propagates "
                 "through frontier blocks that do not define the scalar")
    fn = MOD + "::insert_phi_nodes"
    body = db.mir[fn]
    rep.analysed(fn)
    cfg = Cfg(body)
    tm = terms_of(db, fn, {})
    idx = {}
    for i, t in mir_calls(body):
        idx.setdefault(last_seg(mir_callee(t) or ""), []).append(i)
    need = ["compute_dominance_frontiers", "compute_non_local_scalars", "add_incoming", "predecessor_indices",
            "set_entry_scalar", "add_phi_node"]
    missing = [n for n in need if n not in idx]
    r.decide(not missing, "phi|steps", db.where(body), "phi insertion lacks %s" % missing)
    if missing:
        return
    ai = body["blocks"][idx["add_incoming"][0]]["t"]
    pred_arg = tm.operand(ai["args"][2])
    from_preds = any(last_seg(c[1]) == "predecessor_indices" for c in calls_in(pred_arg))
    r.decide(from_preds and cfg.dominates(idx["predecessor_indices"][0], idx["add_incoming"][0]), "phi|incoming_per_predecessor",
             db.where(body, ai["l"]), "phi operands are not created from the predecessors of the frontier block")
    # predecessor_indices of the *frontier* block (element of dominance_frontiers[...])
    pi = body["blocks"][idx["predecessor_indices"][0]]["t"]
    blk = tm.operand(pi["args"][1])
    r.decide(any(last_seg(c[1]) == "compute_dominance_frontiers" for c in calls_in(blk)), "phi|frontier_block",
             db.where(body, pi["l"]), "predecessors must be taken of the dominance-frontier block")
    # entry operand guarded by == entry
    se = idx["set_entry_scalar"][0]
    guarded = False
    for i, b in enumerate(body["blocks"]):
        t = b["t"]
        if t["k"] == "SwitchInt":
            c = tm.operand(t["discr"])
            if c[0] == "bin" and c[1] == "Eq" and any(last_seg(x[1]) == "entry" for x in calls_in(c)):
                if cfg.dominates(t["otherwise"], se) and not cfg.dominates(dict((v, bb) for v, bb in t["targets"]).get(0, -1), se):
                    guarded = True
    r.decide(guarded, "phi|entry_operand", db.where(body), "the entry operand must be added only when the frontier block is the entry")
    hb = db.hir[fn]
    nl = any(x.get("k") == "If" and any(last_seg(callee(y) or "") == "contains" for y in walk(x["c"])) and
             any(y.get("k") == "Continue" for y in walk(x["then"])) for x in walk(hb["body"]))
    r.decide(nl, "phi|non_local_filter", db.where(hb), "local scalars must be skipped")
    r.decide("push_back" in idx and "pop_front" in idx, "phi|worklist", db.where(body), "iterated dominance frontier needs the work-list")


def discharge(db, body, tm, s):
    t = s["extra"]
    if s["kind"] == "index" and s["fn"] == MOD + "::insert_phi_nodes":
        recv = tm.operand(t["args"][0])
        if any(last_seg(c[1]) == "compute_dominance_frontiers" for c in calls_in(recv)):
            return "dominance frontiers are defined for every vertex (rule R5.R6) and block indices are vertices"
    return None


SITE_ALLOW = {
    MOD + "::scalars_mutated_in_blocks|unwrap@std::collections::HashMap::<K, V, S, A>::get_mut|0":
        "the entry was inserted two lines above when absent",
    MOD + "::ScalarVersioning::new_version|unwrap@core::slice::<impl [T]>::last_mut|0":
        "new_version is only called between start_new_scope and end_scope (rule R3 cfg|order), so a scope exists",
}

MANIFEST = {
    "technique": "static analysis: use-completeness and ordering rules by MIR dominance, twin agreement on HIR arm tables, def-use provenance of phi operands, inherited dominator shape rules",
    "text": "Decides on every run structural necessary conditions of valid SSA construction: uses include edge guards and "
            "reads precede same-instruction kills when finding non-locals, the mutable/immutable accessors agree, the "
            "renamer's order (phi outputs, reads before writes, guards and successor phi operands of this block, scoped "
            "by the dominator tree), one phi operand per predecessor with the entry operand only at the entry, and the "
            "dominator/frontier shape rules it depends on. It does not decide that every use is dominated by its "
            "definition or that the SSA form is behaviourally equivalent.",
    "note": "Trusted: rustc nightly HIR/MIR; two reasoned allow-list entries. Blocks unreachable from the entry are not renamed by the pinned code (outside the rules).",
}
