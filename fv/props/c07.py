"""C07 — the concrete executor.

Decided: State::execute per Operation variant (R1); errors, never guesses: undefined scalar, unmapped load,
intrinsic, no enabled guard (R2); with several outgoing edges a successor is taken only under its own
evaluated guard (R3); error discipline in lib/executor (R4); strict, order-preserving expression evaluation
(R5 = C04.R1); stepping to the next instruction by position, not by index arithmetic (IDX); reachable panic
sites (R6). Not decided: whole-trace equality with the operational semantics.
"""
from armlib import arm_table, last_seg, main_match, unq
from db import Cfg, callee, mir_callee, mir_calls, walk
from mirterm import bodies_under, calls_in, params_of, show, subterms, terms_of
import idxkind
import panics

OP = "il::operation::Operation"
EXEC = "executor::state::State::execute"
STEP = "executor::driver::Driver::step"


def run(db, rep, feat, tier):
    rep.explanation = (
        "Static rules over HIR/MIR of lib/executor and lib/il/location.rs: State::execute's arm per Operation variant "
        "(assignment binds the evaluated source to the destination's name, store passes (address, value) to "
        "memory.store in that order, load reads dst.bits() bits and turns an absent value into "
        "ExecutorInvalidAddress, branch yields SuccessorType::Branch, intrinsic is an error, nop falls through; no "
        "arm touches state it should not); eval's Scalar arm is ExecutorScalar; in Driver::step, when a location has "
        "several successors every returned Driver is dominated by the true side of is_one() of that edge's evaluated "
        "guard and the fall-out is ExecutorNoValidLocation; Results in lib/executor are propagated, not discarded; "
        "evaluation is strict in all operands (C04.R1 on eval); instruction stepping never uses index arithmetic; "
        "panic sites reachable from step/execute. Whole-trace equality is not decided.")
    rep.anchor(EXEC in db.hir and STEP in db.mir, "State::execute and Driver::step")
    r1(db, rep)
    r2(db, rep)
    r3(db, rep)
    r4(db, rep)
    import props.c04 as c04
    from armlib import variants_of
    variants = variants_of(db, c04.EXPR)
    vinfo = {last_seg(v): info for v, info in variants}
    before = len(rep.rules)
    c04.r1(db, rep, variants, vinfo)
    for rr in rep.rules[before:]:
        rr.id = "R5." + rr.id
        rr.floors = []
        for i in rr.instances:
            i["key"] = "R5." + i["key"]
            i["rule"] = rr.id
    idxkind.rule(db, rep, "R7")
    # an indirect branch is resolved with RefProgramLocation::from_address: the address lookup must be exhaustive (C18.R4)
    import props.c18 as c18
    before = len(rep.rules)
    c18.r4(db, rep)
    for rr in rep.rules[before:]:
        rr.id = "R8." + rr.id
        rr.floors = []
        for i in rr.instances:
            i["key"] = "R8." + i["key"]
            i["rule"] = rr.id
    r6 = rep.rule("R6", "K8", "no undischarged panic site reachable from Driver::step / State::execute inside lib/executor")
    panics.reach_rule(db, rep, r6, [STEP, EXEC], scope_prefixes=("executor::",), site_allow=SITE_ALLOW,
                      extra_discharge=discharge)


def r1(db, rep):
    r = rep.rule("R1", "K4", "State::execute per Operation variant: Assign -> set_scalar(dst.name(), eval(src)); Store -> "
                 "memory.store(eval(index), eval(src)) in that order; Load -> memory.load(eval(index), dst.bits()), "
                 "None -> ExecutorInvalidAddress, Some -> set_scalar(dst.name(), v); Branch -> SuccessorType::Branch of "
                 "the evaluated target; Intrinsic -> Err(UnhandledIntrinsic); Nop -> FallThrough; no arm writes state it "
                 "must not (decided on MIR def-use terms: independent of how the arm binds intermediate values)")
    from armlib import variants_of
    body = db.mir[EXEC]
    rep.analysed(EXEC)
    tm = terms_of(db, EXEC, {})
    cfg = Cfg(body)
    vs = variants_of(db, OP)
    rep.anchor(vs is not None and len(vs) == 6, "il::Operation has six variants")
    vnames = [last_seg(v) for v, _ in vs]
    fidx = {last_seg(v): {f["name"]: i for i, f in enumerate(info["fields"])} for v, info in vs}
    # the dispatch: a switch on the discriminant of the operation parameter
    sw = None
    for i, bb in enumerate(body["blocks"]):
        t = bb["t"]
        if t["k"] == "SwitchInt":
            d = tm.operand(t["discr"])
            if d[0] == "discr" and d[1] == ("param", 2):
                sw = (i, t)
                break
    rep.anchor(sw is not None, "switch on the Operation discriminant in execute")
    tgt = {}
    for val, bb in sw[1]["targets"]:
        if isinstance(val, int) and val < len(vnames):
            tgt[vnames[val]] = bb
    rest = [v for v in vnames if v not in tgt]
    if len(rest) == 1 and sw[1].get("otherwise") is not None:
        tgt[rest[0]] = sw[1]["otherwise"]
    rep.anchor(len(tgt) == 6, "one switch target per Operation variant (found %d)" % len(tgt))

    def fld(v, name):
        return ("field", ("variant", ("param", 2), v), ".%d" % fidx[v][name])

    def has(t, x):
        return any(y == x for y in subterms(t))

    def evaluated(t, v, name):
        # the term contains symbolize_and_eval(_, <field>)
        return any(c[0] == "call" and last_seg(c[1]) == "symbolize_and_eval" and any(has(a_, fld(v, name)) for a_ in c[2]) for c in calls_in(t))

    def method_of(t, meth, v, name):
        return t[0] == "call" and last_seg(t[1]) == meth and len(t[2]) >= 1 and t[2][0] == fld(v, name)

    for v in vnames:
        region = [x for x in range(len(body["blocks"])) if cfg.dominates(tgt[v], x)]
        calls = [(last_seg(mir_callee(t) or "?"), [tm.operand(a_) for a_ in t["args"]], t) for i, t in mir_calls(body) if i in region]
        aggs = [last_seg(s_["rv"]["variant"]) for x in region for s_ in body["blocks"][x]["s"] if "variant" in s_.get("rv", {})]
        by = {}
        for nm, args, t in calls:
            by.setdefault(nm, []).append(args)
        w = db.where(body, body["blocks"][tgt[v]]["t"].get("l") or (body["blocks"][tgt[v]]["s"] or [{}])[0].get("l"))
        key = "execute|%s" % v
        writes = set(by) & {"set_scalar", "store"}
        succ = by.get("new", []) if any(last_seg(mir_callee(t) or "") == "new" and "Successor" in (mir_callee(t) or "") for _, _, t in calls) else []
        if v == "Assign":
            ss = by.get("set_scalar", [])
            ok = len(ss) == 1 and method_of(ss[0][1], "name", v, "dst") and evaluated(ss[0][2], v, "src") and \
                not has(ss[0][2], fld(v, "dst")) and writes == {"set_scalar"} and "FallThrough" in aggs
            r.decide(ok, key, w, "Assign must bind the evaluated source to dst.name() and fall through (calls %s)" % sorted(by))
        elif v == "Store":
            st = by.get("store", [])
            ok = len(st) == 1 and len(st[0]) == 3 and evaluated(st[0][1], v, "index") and not has(st[0][1], fld(v, "src")) and \
                evaluated(st[0][2], v, "src") and not has(st[0][2], fld(v, "index")) and writes == {"store"} and "FallThrough" in aggs
            r.decide(ok, key, w, "Store must call memory.store(address from index, value from src) and touch no scalar")
        elif v == "Load":
            ld, ss = by.get("load", []), by.get("set_scalar", [])
            ok = len(ld) == 1 and len(ld[0]) == 3 and evaluated(ld[0][1], v, "index") and method_of(ld[0][2], "bits", v, "dst") and \
                len(ss) == 1 and method_of(ss[0][1], "name", v, "dst") and \
                any(c[0] == "call" and last_seg(c[1]) == "load" for c in calls_in(ss[0][2])) and \
                any(isinstance(y, tuple) and y and y[0] == "variant" and y[2] == "Some" for y in subterms(ss[0][2])) and \
                writes == {"set_scalar"} and "ExecutorInvalidAddress" in aggs and "FallThrough" in aggs
            r.decide(ok, key, w, "Load must read dst.bits() bits at the evaluated index, report absence as ExecutorInvalidAddress and bind dst to the loaded value")
        elif v == "Branch":
            ok = "Branch" in aggs and not writes and any(evaluated(a_, v, "target") and any(
                isinstance(y, tuple) and y and y[0] == "agg" and last_seg(y[1]) == "Branch" for y in subterms(a_)) for args in succ for a_ in args)
            r.decide(ok, key, w, "Branch must yield SuccessorType::Branch(evaluated target) and change nothing")
        elif v == "Intrinsic":
            r.decide("UnhandledIntrinsic" in aggs and "Err" in aggs and not succ and not writes, key, w, "an intrinsic must be reported as an error")
        elif v == "Nop":
            r.decide("FallThrough" in aggs and bool(succ) and not writes and "load" not in by, key, w, "Nop must fall through and change nothing")
    r.floor(6, "six Operation variants")


def r2(db, rep):
    r = rep.rule("R2", "K4", "errors, never guesses: eval() of a Scalar is Err(ExecutorScalar); symbolize_expression "
                 "keeps an unknown scalar symbolic (so eval reports it); a store/load/branch address wider than 64 bits "
                 "is TooManyAddressBits")
    hb = db.hir["executor::eval::eval"]
    m = main_match(hb, "il::expression::Expression")
    for a in arm_table(m):
        for v in a.variants:
            if last_seg(v) == "Scalar":
                ctors = [last_seg(x.get("fn", {}).get("ctor_of", "") or "") for x in walk(a.body) if x.get("k") == "Call"]
                rets = any(x.get("k") == "Ret" for x in walk(a.body))
                r.decide("ExecutorScalar" in ctors and "Err" in ctors and rets, "eval|Scalar", db.where(hb, a.line),
                         "an undefined scalar must be reported as ExecutorScalar")
    SYM = "executor::state::State::symbolize_expression"
    sbody = db.mir[SYM]
    stm = terms_of(db, SYM, {})
    scfg = Cfg(sbody)
    from armlib import variants_of
    evs = [last_seg(v) for v, _ in variants_of(db, "il::expression::Expression")]
    sw = None
    for i, bb in enumerate(sbody["blocks"]):
        t = bb["t"]
        if t["k"] == "SwitchInt":
            d = stm.operand(t["discr"])
            if d[0] == "discr" and d[1] == ("param", 2):
                sw = t
                break
    rep.anchor(sw is not None and "Scalar" in evs, "switch on the Expression discriminant in symbolize_expression")
    tg = [bb for val, bb in sw["targets"] if val == evs.index("Scalar")]
    rep.anchor(len(tg) == 1, "Scalar arm of symbolize_expression")
    region = [x for x in range(len(sbody["blocks"])) if scfg.dominates(tg[0], x)]
    ok = False
    found = False
    for x in region:
        t = sbody["blocks"][x]["t"]
        if t["k"] != "SwitchInt":
            continue
        d = stm.operand(t["discr"])
        if d[0] != "discr" or not calls_in(d):
            continue
        # the lookup of the scalar's value: discriminant 0 is None
        found = True
        none_bb = dict((v_, b_) for v_, b_ in t["targets"]).get(0, t.get("otherwise"))
        nreg = [y for y in region if scfg.dominates(none_bb, y)]
        aggs = [last_seg(s_["rv"]["variant"]) for y in nreg for s_ in sbody["blocks"][y]["s"] if "variant" in s_.get("rv", {})]
        made = [last_seg(mir_callee(t_) or "") for i_, t_ in mir_calls(sbody) if i_ in nreg]
        ok = "Scalar" in aggs and "Constant" not in aggs and not ({"expr_const", "new", "new_big", "into", "from"} & set(made))
    rep.anchor(found, "lookup of the scalar's value in symbolize_expression")
    r.decide(ok, "symbolize|Scalar", db.where(sbody, sbody["blocks"][tg[0]]["t"].get("l")),
             "a scalar without value must stay a scalar (no default value invented)")
    eb = db.hir[EXEC]
    n = sum(1 for x in walk(eb["body"]) if x.get("k") == "Path" and last_seg(x["res"].get("ctor_of", "") or "") == "TooManyAddressBits")
    r.decide(n >= 3, "execute|address_width", db.where(eb), "store, load and branch must reject addresses that do not fit u64")


def r3(db, rep):
    r = rep.rule("R3", "K6", "Driver::step with several successors: every Driver built on that path is dominated by the "
                 "true side of is_one() applied to the evaluated condition of that very edge; falling out of the loop "
                 "is ExecutorNoValidLocation")
    body = db.mir[STEP]
    rep.analysed(STEP)
    cfg = Cfg(body)
    tm = terms_of(db, STEP, {})
    multi = []
    for i, b in enumerate(body["blocks"]):
        t = b["t"]
        if t["k"] == "SwitchInt":
            c = tm.operand(t["discr"])
            if c[0] == "bin" and c[1] == "Eq" and ("const", 1) in (c[2], c[3]) and any(last_seg(x[1]) == "len" for x in calls_in(c)):
                tg = dict((v, bb) for v, bb in t["targets"])
                multi.append(tg.get(0))
    rep.anchor(len(multi) >= 2, "two `locations.len() == 1` tests (after an instruction, in an empty block)")
    guards = []
    for i, b in enumerate(body["blocks"]):
        t = b["t"]
        if t["k"] == "SwitchInt":
            c = tm.operand(t["discr"])
            if c[0] == "call" and last_seg(c[1]) == "is_one" and any(last_seg(x[1]) == "symbolize_and_eval" for x in calls_in(c)) \
                    and any(last_seg(x[1]) == "condition" for x in calls_in(c)):
                guards.append(t["otherwise"])
    news = [i for i, t in mir_calls(body) if mir_callee(t) == "executor::driver::Driver::new"]
    if not guards:
        # the selection may be written as an iterator chain in a helper / closure (`.is_one().then_some(..)`, `find_map`): the
        # dominance argument below does not model that; it is a loss of the anchor, not a verdict - unless no guard is evaluated at all
        elsewhere = False
        for d_ in db.mir.keys():
            if d_.startswith("executor::driver::") and d_ != STEP:
                for i_, t_ in mir_calls(db.mir[d_]):
                    if last_seg(mir_callee(t_) or "") == "is_one":
                        elsewhere = True
        rep.anchor(not elsewhere, "guard evaluation inside Driver::step itself (it is made by a helper or closure: adaptor-chain selection is not modelled)")
    k = 0
    for mstart in multi:
        region = [n for n in news if cfg.dominates(mstart, n)]
        ok = bool(region) and all(any(cfg.dominates(g, n) for g in guards) for n in region)
        r.decide(ok, "step|multi|%d" % k, db.where(body, body["blocks"][mstart]["t"]["l"]),
                 "with several successors a Driver is built without the guard of the chosen edge having evaluated to one")
        errs = [i for i in cfg.reachable(mstart) for s in body["blocks"][i]["s"]
                if s.get("rv", {}).get("variant") == "Error::ExecutorNoValidLocation"]
        r.decide(bool(errs), "step|multi|%d|no_guard_holds" % k, db.where(body), "no enabled guard must be ExecutorNoValidLocation")
        k += 1
    # the guard after an instruction is evaluated on the successor (post-instruction) state
    post = False
    for i, b in enumerate(body["blocks"]):
        t = b["t"]
        if t["k"] == "Call" and last_seg(mir_callee(t) or "") == "symbolize_and_eval":
            st = tm.operand(t["args"][0])
            if any(last_seg(x[1]) == "state" and "Successor" in x[1] for x in calls_in(st)):
                post = True
    r.decide(post, "step|post_state", db.where(body), "after an instruction the guards must be evaluated on the successor's state")


def r4(db, rep):
    r = rep.rule("R4", "K7", "error discipline in lib/executor/{driver,state,eval}.rs: no Result or evaluation outcome is "
                 "discarded (.ok(), unwrap_or*, unwrap_or_default on a Result<_, Error>)")
    n = 0
    for f in ("executor/driver.rs", "executor/state.rs", "executor/eval.rs", "executor/successor.rs"):
        for d in db.mir.in_file(f):
            body = db.mir[d]
            if "::tests" in d or d.endswith("::add") or d.endswith("::cmplts"):
                continue
            rep.analysed(d)
            bad = []
            for i, t in mir_calls(body):
                fn = t.get("f") or ""
                if fn.startswith("std::result::Result::<T, E>::") and last_seg(fn) in (
                        "ok", "unwrap_or", "unwrap_or_else", "unwrap_or_default", "is_ok", "is_err", "err"):
                    bad.append((t["l"], last_seg(fn)))
            n += 1
            r.decide(not bad, "%s|results_propagated" % d, db.where(body, bad[0][0] if bad else None),
                     "a Result is discarded with %s" % (bad[0][1] if bad else ""))
    r.floor(8, "functions of lib/executor")


def discharge(db, body, tm, s):
    t = s["extra"]
    # locations[0] after forward() of an edge / after len() == 1
    if s["kind"] == "index" and s["fn"] == STEP and s["what"] == "Vec":
        key = tm.operand(t["args"][1]) if len(t["args"]) > 1 else None
        if key == ("const", 0):
            cfg = Cfg(body)
            for i, b in enumerate(body["blocks"]):
                tt = b["t"]
                if tt["k"] == "SwitchInt":
                    c = tm.operand(tt["discr"])
                    if c[0] == "bin" and c[1] == "Eq" and ("const", 1) in (c[2], c[3]):
                        if cfg.dominates(tt["otherwise"], s["block"]):
                            return "locations[0] on the `len() == 1` side"
    return None


SITE_ALLOW = {
    STEP + "|index@Vec|1": "forward() of an Edge location always returns exactly one location (edge_forward builds a "
                           "one-element vector in both branches)",
}

MANIFEST = {
    "technique": "static analysis: per-variant rules on MIR def-use terms (regions dominated by each variant of the operation switch), MIR dominance of successor selection by the evaluated guard, error-discipline census, index/position provenance, panic reachability",
    "text": "Decides on every run the structural clauses of the executor property: each IL operation is applied as the "
            "operational semantics prescribes (operand order, widths from the destination, nothing else touched), the "
            "error cases are errors (undefined scalar, unmapped load, intrinsic, no guard), a successor among several is "
            "chosen only under its own guard evaluated to one on the post-state, Results are propagated, expression "
            "evaluation is strict, next-instruction stepping is positional. It does not decide whole-trace equality or "
            "determinism on overlapping guards.",
    "note": "Trusted: rustc nightly HIR/MIR. Known: TranslationMemory::get_u8 for the executor memory unwraps (outside "
            "step/execute; used only when lifting on demand).",
}
