"""C14 — dead-code elimination.

Decided: the pass only writes Operation::nop() through block_mut/instruction_mut/operation_mut (R1); liveness
roots: indirect branches and intrinsics (what reaches them before they execute) and blocks without
successors (R2); only operations known to write scalars, and nothing else, are candidates (R3, finite-case
evaluation); index discipline (IDX); completion (R5); its inputs (C12 rules, R6). Not decided: full
observational equivalence.
"""
from armlib import arm_table, last_seg, main_match, unq
from db import callee, mir_callee, mir_calls, walk
from mirterm import bodies_under, calls_in, terms_of
import idxkind
import optval
import panics

DCE = "analysis::dead_code_elimination::dead_code_elimination"
OP = "il::operation::Operation"
ALLOWED_MUT = {"il::function::Function::block_mut", "il::block::Block::instruction_mut",
               "il::instruction::Instruction::operation_mut"}


def run(db, rep, feat, tier):
    rep.explanation = (
        "Static rules over HIR/MIR of lib/analysis/dead_code_elimination.rs: the only calls taking &mut of an IL type "
        "are block_mut / instruction_mut / operation_mut and the only value written through them is Operation::nop(); "
        "the root scan's match over Operation marks what reaches Branch and Intrinsic operations *before* they execute "
        "(reaching_definitions_in) and the terminal scan uses blocks whose edges_out is empty; the candidate filter is "
        "evaluated for the four cases of scalars_written() (None, empty, non-empty, no instruction) and admits only a "
        "non-empty known write set; instruction indices are never used as vector positions; reachable panic sites; "
        "and the C12 rules for the chains it consumes. Full observational equivalence is not decided.")
    rep.anchor(DCE in db.mir and DCE in db.hir, DCE)
    r1(db, rep)
    r2(db, rep)
    r3(db, rep)
    r3b(db, rep)
    idxkind.rule(db, rep, "R4")
    r5 = rep.rule("R5", "K8", "no undischarged panic site is reachable inside dead_code_elimination itself")
    panics.reach_rule(db, rep, r5, [DCE], scope_prefixes=("analysis::dead_code_elimination",), site_allow=SITE_ALLOW)
    import props.c12 as c12
    before = len(rep.rules)
    cache = {}
    trans = [k for k in db.hir.keys() if k.startswith("<analysis::reaching_definitions") and k.endswith("::trans")][0]
    c12.r1_r5(db, rep, cache, trans)
    c12.r2(db, rep, cache)
    c12.r7(db, rep, trans)
    c12.r6b(db, rep, trans)
    c12.r9(db, rep)
    for rr in rep.rules[before:]:
        rr.id = "R6." + rr.id
        for i in rr.instances:
            i["key"] = "R6." + i["key"]
            i["rule"] = rr.id


def r3b(db, rep):
    from mirterm import bodies_under
    from db import mir_calls
    r = rep.rule("R3b", "K4", "terminal scan: every block without successors contributes a root - its last instruction, or the block "
                 "itself when it is empty (an empty exit block still receives the definitions that are live out of the function)")
    inst = empty = 0
    from armlib import unit_bodies
    roots = [b_["def"] for b_ in unit_bodies(db, db.hir[DCE])]
    for d in [x for rt in roots for x in bodies_under(db, rt)]:
        body = db.mir.get(d)
        if body is None:
            continue
        for b in body["blocks"]:
            for s_ in b["s"]:
                v = str(s_.get("rv", {}).get("variant", ""))
                if v.endswith("RefFunctionLocation::Instruction"):
                    inst += 1
                if v.endswith("RefFunctionLocation::EmptyBlock"):
                    empty += 1
    r.decide(inst >= 1 and empty >= 1, "roots|empty_terminal_block", db.where(db.mir[DCE]),
             "the terminal scan builds %d Instruction and %d EmptyBlock locations: terminal blocks without instructions are skipped, "
             "so definitions that only flow out of the function through such a block are eliminated" % (inst, empty))


def r1(db, rep):
    r = rep.rule("R1", "K7", "dead_code_elimination mutates IL only through block_mut -> instruction_mut -> "
                 "operation_mut, and the only value stored through operation_mut is Operation::nop()")
    cache = {}
    from armlib import unit_bodies
    roots = [b_["def"] for b_ in unit_bodies(db, db.hir[DCE])]
    for d in [x for rt in roots for x in bodies_under(db, rt)]:
        body = db.mir[d]
        rep.analysed(d)
        tm = terms_of(db, d, cache)
        for i, t in mir_calls(body):
            c = mir_callee(t) or ""
            h = db.hir.get(c)
            if h and h.get("inputs") and h["inputs"][0].startswith("&mut il::"):
                r.decide(c in ALLOWED_MUT, "%s|mutator|%s" % (d, c), db.where(body, t["l"]),
                         "dead_code_elimination calls the IL mutator %s" % c)
        # stores through the result of operation_mut
        for blk in body["blocks"]:
            for s in blk["s"]:
                pl = s.get("d")
                if pl and len(pl) >= 2 and pl[1] == "*" and "rv" in s:
                    base = tm.local(pl[0])
                    if any(c[1] == "il::instruction::Instruction::operation_mut" for c in calls_in(base)):
                        val = tm.rvalue(s["rv"], 12)
                        isnop = val[0] == "call" and val[1] == "il::operation::Operation::nop"
                        r.decide(isnop, "%s|store_through_operation_mut" % d, db.where(body, s["l"]),
                                 "an operation is replaced by something other than Operation::nop()")
    r.floor(3, "block_mut, instruction_mut, operation_mut + the nop store")


def r2(db, rep):
    r = rep.rule("R2", "K4", "liveness roots: the scan over all instructions marks, for Branch and Intrinsic, the "
                 "definitions reaching the operation before it executes; terminal blocks are those whose edges_out is "
                 "empty and contribute the definitions reaching their last location")
    from armlib import main_match_in_unit
    m, hb = main_match_in_unit(db, db.hir[DCE], OP)
    rep.anchor(m is not None, "match over Operation in the root scan")
    rooted = {}
    for a in arm_table(m):
        cs = {last_seg(c) for c in a.callees()}
        for v in a.variants:
            rooted[last_seg(v)] = cs
    for v in ("Branch", "Intrinsic"):
        cs = rooted.get(v, set())
        r.decide("insert" in cs and "reaching_definitions_in" in cs, "roots|%s" % v, db.where(hb, m["l"]),
                 "%s operations must root the definitions reaching them before they execute (callees: %s)" % (v, sorted(cs)))
    for v in ("Assign", "Load", "Store", "Nop"):
        if v in rooted and "insert" in rooted[v]:
            r.open("roots|%s" % v, db.where(hb, m["l"]), "%s operations are rooted as well (conservative)" % v)
    term = False
    from armlib import unit_bodies
    for n in (x for b_ in unit_bodies(db, db.hir[DCE]) for x in walk(b_["body"])):
        if n.get("k") == "MethodCall" and n["name"] == "filter" and n["args"]:
            cs = [last_seg(callee(x) or "") for x in walk(n["args"][0])]
            if "edges_out" in cs and "is_empty" in cs:
                term = True
    r.decide(term, "roots|terminal", db.where(hb), "terminal blocks must be selected by an empty edges_out")


def r3(db, rep):
    r = rep.rule("R3", "K4", "candidate filter evaluated for every case of the written set: no instruction -> not a "
                 "candidate; scalars_written() = None (undeclared effects) -> not a candidate; Some(empty) -> not a "
                 "candidate; Some(non-empty) -> candidate")
    hb = db.hir[DCE]
    clo = None
    from armlib import unit_bodies
    for b_ in unit_bodies(db, db.hir[DCE]):
        for n in walk(b_["body"]):
            if n.get("k") == "MethodCall" and n["name"] == "filter" and n["args"] and n["args"][0].get("k") == "Closure":
                cs = [last_seg(callee(x) or "") for x in walk(n["args"][0])]
                if "scalars_written" in cs:
                    clo = n["args"][0]
                    hb = b_
    rep.anchor(clo is not None, "candidate filter closure")
    cases = {
        "no_instruction": (optval.NONE, None, None, optval.F),
        "undeclared_effects": (optval.some(optval.sym("I")), optval.NONE, None, optval.F),
        "writes_nothing": (optval.some(optval.sym("I")), optval.some(optval.sym("W")), optval.T, optval.F),
        "writes_scalars": (optval.some(optval.sym("I")), optval.some(optval.sym("W")), optval.F, optval.T),
    }
    for case, (ins, sw, empty, want) in cases.items():
        def hook(c, recv, args, node, ins=ins, sw=sw, empty=empty):
            n = last_seg(c)
            if n == "instruction":
                return ins
            if n == "scalars_written":
                return sw
            if n == "is_empty":
                return empty
            return None
        ev = optval.Ev(hb, hook)
        v = ev.apply(("closure", clo, {}), [optval.sym("LOC")])
        if v == optval.UNK:
            r.open("filter|%s" % case, db.where(hb, clo["l"]), "not evaluable")
        else:
            r.decide(v == want, "filter|%s" % case, db.where(hb, clo["l"]),
                     "for %s the filter yields %s, expected %s" % (case, optval.show(v), optval.show(want)))


SITE_ALLOW = {
    DCE + "|unwrap@il::location::FunctionLocation::instruction_index|0":
        "every kill entry comes from a location whose instruction() is Some (the candidate filter requires it)",
    DCE + "|unwrap@il::location::FunctionLocation::block_index|0": "same: kill entries are instruction locations",
    DCE + "|unwrap@il::function::Function::block_mut|0": "the block index was read from the function being cloned",
    DCE + "::{closure#0}|unwrap@il::control_flow_graph::ControlFlowGraph::edges_out|0":
        "edges_out of the index of a block of the same graph cannot fail",
}

MANIFEST = {
    "technique": "static analysis: who-may-mutate rule on MIR, per-variant root rules on HIR, finite-case evaluation of the candidate filter, index/position provenance, panic reachability",
    "text": "Decides on every run that dead-code elimination can only turn operations into nops (so blocks, edges and "
            "instruction positions are untouched by construction), that indirect branches, intrinsics and successor-less "
            "blocks root what reaches them, that an operation with undeclared or empty write set is never a candidate, "
            "that instruction indices are not used as positions, that the pass has no reachable undischarged panic, and "
            "the chain rules of C12 it depends on. Observational equivalence itself (a semantic statement over all "
            "executions) is not decided.",
    "note": "Trusted: rustc nightly HIR/MIR; pure-getter assumption in the filter evaluation; allow-list with reasons in fv/props/c14.py.",
}
