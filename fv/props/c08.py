"""C08 — paged memory: copy-on-write clones, reflexive equality, width contract, permissions.

Decided: every mutation of a page goes through RC::make_mut or a page created in the same function, no
other route to a shared page exists (R1); equality is reflexive for every backing case (R2, finite-case
evaluation); the width test dominates cell access (R3); reachable panic sites (R4); permissions() falls
back to the backing unless the page has permissions of its own (R5, finite-case evaluation); the page loop
of set_permissions compares an address with an address (R6, unit inference); stores never touch
permissions (R7). Not decided: byte-exact splitting/joining of values, page crossing, endianness arithmetic.
"""
from armlib import last_seg
from db import Cfg, mir_callee, mir_calls, walk, callee
from mirterm import Terms, bodies_under, calls_in, params_of, show, subterms, terms_of
import optval
import panics

MEM = "memory::paged::Memory::<V>"
PAGE = "memory::paged::Page::<V>"
PAGE_MUTATORS = (PAGE + "::store", PAGE + "::set_permissions")
MAKE_MUT = ("std::rc::Rc::<T, A>::make_mut", "std::sync::Arc::<T, A>::make_mut")
FORBIDDEN_RC = ("get_mut", "get_mut_unchecked", "as_ptr", "into_raw", "from_raw", "increment_strong_count")


def run(db, rep, feat, tier):
    rep.explanation = (
        "Static rules over HIR/MIR of lib/memory/paged.rs and every crate function touching Page values: all calls "
        "of Page::store / Page::set_permissions take their receiver from RC::make_mut (Rc or Arc, both feature "
        "configurations in the thorough tier) or from a Page constructed in the same function; Page fields are "
        "written only inside impl Page; no Rc/Arc escape hatch (get_mut, as_ptr, ...) is applied to a page; no "
        "public function hands out &mut to pages; Memory::eq is evaluated abstractly for self == self in both "
        "backing cases and must yield true; permissions() is evaluated for page absent / present without / present "
        "with permissions and must fall back to the backing in the first two; the width test of store/load "
        "dominates every cell access; set_permissions' loop bound has the unit 'address'; the store path never "
        "calls set_permissions; panic sites reachable from the public operations are discharged or reported. "
        "Byte-level splitting/joining and endianness arithmetic are not decided.")
    for f in (MEM + "::store", MEM + "::load", MEM + "::permissions", MEM + "::set_permissions",
              "<memory::paged::Memory<V> as std::cmp::PartialEq>::eq"):
        rep.anchor(f in db.mir, f)
    r1(db, rep)
    r2(db, rep)
    r2b(db, rep)
    r3(db, rep)
    r5(db, rep)
    r6(db, rep)
    r7(db, rep)
    r8(db, rep)
    r9(db, rep)
    r4(db, rep)


def r8(db, rep):
    from db import Cfg, mir_calls, mir_callee
    r = rep.rule("R8", "K7", "the backing is read one byte at a time and only where no cell exists: the data accessors of "
                 "backing::Memory are called from load_backing alone, and every call of load_backing in load() is dominated by a "
                 "cell lookup (a wider read of the backing would ignore bytes stored in the middle of the range)")
    DATA = ("get", "get8", "get32", "get_u8", "get_bytes")
    bad = []
    n = 0
    for k in db.mir.keys():
        if "memory::paged::" not in k:
            continue
        body = db.mir[k]
        for i, t in mir_calls(body):
            c = mir_callee(t) or ""
            if c.startswith("memory::backing::Memory::") and last_seg(c) in DATA:
                n += 1
                if not k.startswith(MEM + "::load_backing"):
                    bad.append((k, c, t.get("l"), body))
    for k, c, l, body in bad:
        r.bad("backing_read|%s|%s" % (last_seg(k.split("::{closure")[0]), last_seg(c)), db.where(body, l),
              "%s reads the backing with %s outside load_backing: cells stored inside the range are bypassed" % (last_seg(k.split("::{closure")[0]), last_seg(c)))
    r.decide(n >= 1, "backing_read|load_backing", "", "no data read of the backing found")
    body = db.mir[MEM + "::load"]
    cfg = Cfg(body)
    lookups = [i for i, t in mir_calls(body) if (mir_callee(t) or "") in (MEM + "::load_cell", MEM + "::load")]
    for n_, (i, t) in enumerate((i, t) for i, t in mir_calls(body) if (mir_callee(t) or "") == MEM + "::load_backing"):
        r.decide(any(cfg.dominates(j, i) for j in lookups), "load|load_backing|%d" % n_, db.where(body, t.get("l")),
                 "load_backing is called without a preceding cell lookup")


def r9(db, rep):
    from db import mir_calls, mir_callee
    from mirterm import terms_of, subterms
    r = rep.rule("R9", "K9", "store: what is re-stored of an older value that overlaps the write depends on the addresses and the older "
                 "value only, never on the width of the value being written (the remnants are [older start, write start) and "
                 "[write end, older end))")
    fn = MEM + "::store"
    body = db.mir[fn]
    # the value being written: the parameter of the memory's value type (by type, not by name); private helpers of store that are
    # handed something derived from it carry it in the corresponding parameter
    vparams = [i for i in range(1, body["argc"] + 1) if body["types"][body["locals"][i]] in ("V", "&V")]
    rep.anchor(len(vparams) == 1, "parameter value of store")
    units = {fn: set(vparams)}
    work = [fn]
    while work:
        f = work.pop()
        fb = db.mir[f]
        ftm = terms_of(db, f, {})
        for i, t in mir_calls(fb):
            c = mir_callee(t) or ""
            if not c.startswith(MEM + "::") or c not in db.mir or c in (MEM + "::load", MEM + "::store"):
                continue
            c = db.mir[c]["def"]
            h = db.hir.get(c)
            if h is None or h.get("vis") == "Public":
                continue
            carried = {j + 1 for j, a_ in enumerate(t["args"]) if any(x in [("param", p_) for p_ in units[f]] for x in subterms(ftm.operand(a_)))}
            if c not in units or not carried <= units[c]:
                units[c] = units.get(c, set()) | carried
                work.append(c)
    n = 0
    for f, carriers in sorted(units.items()):
        fb = db.mir[f]
        ftm = terms_of(db, f, {})
        cps = [("param", p_) for p_ in carriers]
        for i, t in mir_calls(fb):
            if (mir_callee(t) or "") != MEM + "::load":
                continue
            addr, width_ = ftm.operand(t["args"][1]), ftm.operand(t["args"][2])
            n += 1
            head = not any(x in cps for x in subterms(addr))     # address not derived from the new value: the head remnant
            uses_value = any(x in cps for x in subterms(width_))
            if head:
                r.decide(not uses_value, "store|head_remnant_width", db.where(fb, t.get("l")),
                         "the width of the head remnant of an overwritten value is computed from the width of the value being written")
            else:
                r.ok("store|tail_remnant|%d" % n, db.where(fb, t.get("l")))
    r.floor(2, "remnant loads in store")


def r1(db, rep):
    r = rep.rule("R1", "K7", "copy-on-write: the receiver of every Page::store / Page::set_permissions call derives "
                 "from RC::make_mut or from a Page created in the same function; Page fields are written only inside "
                 "impl Page; no Rc/Arc escape hatch is applied to a page; no public function returns &mut into pages")
    n = 0
    for d, body in db.mir.items():
        tm = None
        k = 0
        for i, t in mir_calls(body):
            c = mir_callee(t) or ""
            if c in PAGE_MUTATORS:
                tm = tm or Terms(body, db)
                recv = tm.operand(t["args"][0])
                heads = [x[1] for x in calls_in(recv)]
                ok = bool(heads) and (heads[0] in MAKE_MUT or heads[0] == PAGE + "::new") or \
                    any(h in MAKE_MUT for h in heads[:2])
                local_new = any(h == PAGE + "::new" for h in heads) and not any("HashMap" in h for h in heads)
                r.decide(ok or local_new, "%s|mutates_page|%d" % (d, k), db.where(body, t["l"]),
                         "page is mutated through %s, not through RC::make_mut (a store through one clone becomes "
                         "visible through another)" % show(recv)[:100], detail={"receiver": show(recv)[:120]})
                k += 1
                n += 1
                rep.analysed(d)
            fg = t.get("fg", "")
            if "paged::Page<" in fg and (c.startswith("std::rc::Rc") or c.startswith("std::sync::Arc")) \
                    and last_seg(c) in FORBIDDEN_RC:
                r.bad("%s|rc_escape|%s" % (d, last_seg(c)), db.where(body, t["l"]),
                      "%s applied to a shared page bypasses copy-on-write" % c)
    # field writes
    page_item = db.adt("memory::paged::Page")
    rep.anchor(page_item is not None, "struct memory::paged::Page")
    for d, body in db.mir.items():
        h = db.hir.get(d)
        in_page_impl = (h or {}).get("impl_self", "").startswith("memory::paged::Page<") or \
            "paged::Page<" in d and ("serde" in d or d.startswith("<memory::paged::Page"))
        for blk in body["blocks"]:
            for s in blk["s"]:
                pl = s.get("d")
                if not pl or len(pl) < 2:
                    continue
                base_ty = body["types"][body["locals"][pl[0]]]
                if "memory::paged::Page<" in base_ty and "HashMap" not in base_ty and any(p.startswith(".") for p in pl[1:]):
                    if not in_page_impl:
                        r.bad("%s|field_write" % d, db.where(body, s["l"]),
                              "a field of a Page is assigned outside impl Page")
    # API surface
    for d, h in db.hir.items():
        if not h["file"].endswith("memory/paged.rs") or h.get("dk") not in ("Fn", "AssocFn"):
            continue
        out = h.get("output", "")
        if h.get("vis") == "Public" and "&mut" in out and ("Page<" in out or "HashMap<u64" in out):
            r.bad("%s|api" % d, db.where(h), "public function returns a mutable reference into shared pages: %s" % out)
        else:
            r.ok("%s|api" % d, db.where(h))
    r.floor(3, "2 Page::store call sites + 1 Page::set_permissions call site, plus API rows")


def r2(db, rep):
    r = rep.rule("R2", "K11", "Memory::eq evaluated abstractly with other = self yields true whether or not there "
                 "is a backing (reflexivity; finite cases: backing absent / present)")
    fn = "<memory::paged::Memory<V> as std::cmp::PartialEq>::eq"
    hb = db.hir[fn]
    rep.analysed(fn)
    for case, backing in (("no_backing", optval.NONE), ("with_backing", optval.some(optval.sym("B")))):
        def hook(c, recv, args, node, backing=backing):
            if c.endswith("::backing") and recv is not None:
                return backing
            if c.endswith("::ptr_eq"):
                a = args
                return optval.T if len(a) == 2 and a[0] == a[1] else None
            return None
        ev = optval.Ev(hb, hook)
        me = ("sym", "M")
        v = ev.run(optval.param_env(hb, [me, me]))
        if v == optval.UNK:
            r.open("eq|%s" % case, db.where(hb), "could not evaluate Memory::eq abstractly")
        else:
            r.decide(v == optval.T, "eq|%s" % case, db.where(hb),
                     "a memory compared with itself (%s) yields %s" % (case, optval.show(v)))


def r2b(db, rep):
    r = rep.rule("R2b", "K4", "Memory::eq compares the page maps as whole values (HashMap == HashMap), or, if it walks "
                 "pages itself, also compares the number of pages (otherwise equality is a one-sided subset test and "
                 "equal memories can answer loads differently)")
    fn = "<memory::paged::Memory<V> as std::cmp::PartialEq>::eq"
    whole = walks = lens = False
    for d in bodies_under(db, fn):
        body = db.mir[d]
        for i, t in mir_calls(body):
            f = t.get("f") or ""
            fg = t.get("fg", "")
            if f in ("std::cmp::PartialEq::eq", "std::cmp::PartialEq::ne") and fg.startswith("<std::collections::HashMap<u64"):
                whole = True
            if "HashMap" in f and last_seg(f) in ("iter", "keys", "values", "get", "into_iter"):
                walks = True
            if "HashMap" in f and last_seg(f) == "len":
                lens = True
    r.decide(whole or (walks and lens), "eq|pages", db.where(db.mir[fn]),
             "page maps are compared page by page without comparing their sizes")


_TOUCH = {}


def cell_touchers(db):
    if id(db) in _TOUCH:
        return _TOUCH[id(db)]
    base = {PAGE + "::load", PAGE + "::store"}
    fns = [k for k in db.mir.keys() if k.startswith("memory::paged::") and "{closure#" not in k]
    out = set()
    changed = True
    while changed:
        changed = False
        for f in fns:
            if f in out:
                continue
            for d in [f] + list(db.closures_of(f)):
                b = db.mir.get(d)
                if b is None:
                    continue
                for i, t in mir_calls(b):
                    c = mir_callee(t) or ""
                    actual = db.mir[c]["def"] if c in db.mir else c
                    if c in base or actual in base or c in out or actual in out or c.startswith("memory::backing::Memory::get"):
                        out.add(f)
                        changed = True
                        break
                if f in out:
                    break
    _TOUCH[id(db)] = out
    return out


def r3(db, rep):
    r = rep.rule("R3", "K6", "store and load reject widths that are zero or not a multiple of 8 before any cell "
                 "access: the rejecting branch dominates every call that touches cells")
    for name, touch in (("store", ("store_no_backref", "load_cell", "store_cell", "load")),
                        ("load", ("load_cell", "load_backing", "load"))):
        fn = "%s::%s" % (MEM, name)
        body = db.mir[fn]
        rep.analysed(fn)
        cfg = Cfg(body)
        tm = Terms(body, db)
        # switches whose condition mentions is_multiple_of(bits, 8) / bits == 0
        guards = {}
        for i, b in enumerate(body["blocks"]):
            t = b["t"]
            if t["k"] != "SwitchInt":
                continue
            c = tm.operand(t["discr"])
            txt = show(c)
            if "is_multiple_of" in txt and any(s == ("const", 8) for s in subterms(c)):
                guards["mult8"] = (i, c)
            if c[0] == "bin" and c[1] in ("Eq", "Ne") and ("const", 0) in (c[2], c[3]) and (
                    "bits" in txt or ("param", 3) in (c[2], c[3])):
                guards["zero"] = (i, c)
        # calls that touch cells: the module's functions from which a page cell or the backing is read or written (found by
        # reachability, so that splitting store/load into private helpers keeps them in view)
        reach_cells = cell_touchers(db)
        touches = [i for i, t in mir_calls(body) if (mir_callee(t) or "") in reach_cells or last_seg(mir_callee(t) or "") in touch]
        rep.anchor(touches, "cell accesses in %s" % fn)
        for g in ("mult8", "zero"):
            if g not in guards:
                r.bad("%s|%s" % (name, g), db.where(body), "%s does not test the width (%s)" % (name, g))
                continue
            gi = guards[g][0]
            bad = [i for i in touches if not cfg.dominates(gi, i)]
            r.decide(not bad, "%s|%s" % (name, g), db.where(body),
                     "cell access at MIR blocks %s is not dominated by the width test" % bad)


def r5(db, rep):
    r = rep.rule("R5", "K4", "permissions(): page absent -> backing's permissions; page present without permissions "
                 "-> backing's permissions; page present with permissions -> those (finite-case evaluation of the "
                 "Option chain)")
    fn = MEM + "::permissions"
    hb = db.hir[fn]
    rep.analysed(fn)
    cases = {
        "page_absent": (optval.NONE, None, "BP"),
        "page_without_permissions": (optval.some(optval.sym("PAGE")), optval.NONE, "BP"),
        "page_with_permissions": (optval.some(optval.sym("PAGE")), optval.some(optval.sym("PP")), "PP"),
    }
    for case, (page, pperm, want) in cases.items():
        def hook(c, recv, args, node, page=page, pperm=pperm):
            n = last_seg(c)
            if n == "get" and "HashMap" in c:
                return page
            if n == "permissions" and recv is not None and recv == optval.sym("PAGE"):
                return pperm
            if n == "backing":
                return optval.some(optval.sym("B"))
            if n == "permissions" and recv is not None and recv == optval.sym("B"):
                return optval.some(optval.sym("BP"))
            return None
        ev = optval.Ev(hb, hook)
        v = ev.run(optval.param_env(hb, [("sym", "M"), ("sym", "addr")]))
        if optval.contains_unknown(v):
            r.open("permissions|%s" % case, db.where(hb), "could not evaluate: %s" % optval.show(v))
        else:
            r.decide(v == optval.some(optval.sym(want)), "permissions|%s" % case, db.where(hb),
                     "with %s permissions() yields %s, expected Some(%s)" % (case, optval.show(v), want))


def unit_of(t, seeds):
    """Unit inference over a MIR term: 'A' address, 'L' length, None unknown, 'X' inconsistent."""
    t0 = t
    if t in seeds:
        return seeds[t]
    if t[0] == "const":
        return "K"
    if t[0] == "cast":
        return unit_of(t[1], seeds)
    if t[0] == "field" and t[2] == ".0" and t[1][0] == "bin" and t[1][1].endswith("WithOverflow"):
        t = ("bin", t[1][1][:-len("WithOverflow")], t[1][2], t[1][3])
    if t[0] == "phi":
        us = {unit_of(x, seeds) for x in t[1]} - {None, "K"}
        return us.pop() if len(us) == 1 else ("X" if us else None)
    if t[0] == "bin":
        a, b = unit_of(t[2], seeds), unit_of(t[3], seeds)
        op = t[1]
        if op in ("BitAnd", "BitOr"):
            return a if a in ("A", "L") else b
        if op == "Add":
            if {a, b} == {"A", "L"}:
                return "A"
            if a == b == "L":
                return "L"
            if a == b == "A":
                return "X"
            if "A" in (a, b) and (a == "K" or b == "K"):
                return "A"
            if "L" in (a, b) and (a == "K" or b == "K"):
                return "L"
            return None
        if op == "Sub":
            if a == "A" and b == "A":
                return "L"
            if a == "A" and b in ("L", "K"):
                return "A"
            if a == "L" and b in ("L", "K"):
                return "L"
            return None
        if op in ("Mul", "Shl", "Shr", "Div"):
            return a if b == "K" else None
    return None


def r6(db, rep):
    r = rep.rule("R6", "K9", "set_permissions: the page loop compares a page address with an address (unit inference: "
                 "keys of the page map and masked addresses are addresses, parameters named len/length/size are "
                 "lengths, address - address = length, address + length = address)")
    fn = MEM + "::set_permissions"
    body = db.mir[fn]
    hb = db.hir[fn]
    rep.analysed(fn)
    tm = Terms(body, db)
    seeds = {}
    pnames = [p.get("name") for p in hb["params"]]
    for i, nm in enumerate(pnames):
        if nm and nm.lower() in ("len", "length", "size", "count", "bytes"):
            seeds[("param", i + 1)] = "L"
        if nm and nm.lower() in ("address", "addr"):
            seeds[("param", i + 1)] = "A"
    # keys of the page map are addresses: back-propagate through masking to parameters
    for i, t in mir_calls(body):
        if "HashMap" in (t.get("f") or "") and last_seg(t["f"]) in ("entry", "get", "get_mut", "insert") and len(t["args"]) > 1:
            kt = tm.operand(t["args"][1])
            for s in subterms(kt):
                if s[0] == "bin" and s[1] == "BitAnd":
                    for side in (s[2], s[3]):
                        if side[0] == "param":
                            seeds.setdefault(side, "A")
    found = 0
    for i, b in enumerate(body["blocks"]):
        t = b["t"]
        if t["k"] != "SwitchInt":
            continue
        c = tm.operand(t["discr"])
        if c[0] == "bin" and c[1] in ("Lt", "Le", "Gt", "Ge"):
            ua, ub = unit_of(c[2], seeds), unit_of(c[3], seeds)
            found += 1
            key = "set_permissions|loop_bound|%d" % (found - 1)
            if ua in ("A", "L") and ub in ("A", "L"):
                r.decide(ua == ub, key, db.where(body, t["l"]),
                         "loop compares a value of unit %s with a value of unit %s: %s" % (
                             "address" if ua == "A" else "length", "address" if ub == "A" else "length", show(c)[:140]))
            elif "X" in (ua, ub):
                r.bad(key, db.where(body, t["l"]), "inconsistent units in loop bound %s" % show(c)[:140])
            else:
                r.open(key, db.where(body, t["l"]), "units not inferable (%s, %s)" % (ua, ub))
    rep.anchor(found >= 1, "loop comparison in set_permissions")
    # exclusive end: `page < address + len` (or `page <= address + len - 1`)
    from mirterm import strip_overflow
    for i, b in enumerate(body["blocks"]):
        t = b["t"]
        if t["k"] != "SwitchInt":
            continue
        c = tm.operand(t["discr"])
        if c[0] == "bin" and c[1] in ("Lt", "Le") and unit_of(c[2], seeds) == "A":
            bound = strip_overflow(c[3])
            addr_p = [p for p, u in seeds.items() if u == "A" and p[0] == "param"]
            len_p = [p for p, u in seeds.items() if u == "L"]
            if not addr_p or not len_p:
                r.open("set_permissions|end", db.where(body, t["l"]), "address/length parameters not identified")
                continue
            plain = bound[0] == "bin" and bound[1] == "Add" and {bound[2], bound[3]} == {addr_p[0], len_p[0]}
            if c[1] == "Lt":
                r.decide(plain, "set_permissions|end", db.where(body, t["l"]),
                         "with `<` the loop bound must be exactly address + len (exclusive end), found %s" % show(bound)[:100])
            else:
                r.open("set_permissions|end", db.where(body, t["l"]), "inclusive bound form not analysed")


def r7(db, rep):
    r = rep.rule("R7", "K7", "stores never change reported permissions: no function reachable from store() calls "
                 "Page::set_permissions, and a page created by a store starts without permissions of its own")
    g = panics.call_graph(db)
    reach = g.reach([MEM + "::store"])
    bad = []
    for f in reach:
        for i, t in mir_calls(db.mir[f]):
            if mir_callee(t) == PAGE + "::set_permissions":
                bad.append(f)
    r.decide(not bad, "store|no_set_permissions", db.where(db.mir[MEM + "::store"]),
             "store path reaches Page::set_permissions via %s" % bad)
    # Page::new initialises permissions to None
    hb = db.hir.get(PAGE + "::new")
    rep.anchor(hb is not None, "Page::new")
    ok = False
    for n in walk(hb["body"]):
        if n.get("k") == "Struct" and last_seg(n["path"].get("def", "")) == "Page":
            for f in n["fields"]:
                if f["n"] == "permissions":
                    e = f["e"]
                    ok = e.get("k") == "Path" and last_seg(e["res"].get("ctor_of", "") or e["res"].get("def", "")) == "None"
    r.decide(ok, "Page::new|permissions_none", db.where(hb), "a fresh page must start without permissions")


def r4(db, rep):
    r = rep.rule("R4", "K8", "panic sites reachable from store / load / permissions / set_permissions / eq")
    entries = [MEM + "::store", MEM + "::load", MEM + "::permissions", MEM + "::set_permissions"]
    panics.reach_rule(db, rep, r, entries, scope_prefixes=("memory::paged::",), site_allow=SITE_ALLOW,
                      extra_discharge=discharge)


_DISCHARGE_CACHE = {}


def discharge(db, body, tm, s):
    key = (id(db), s["fn"], s["kind"])
    if key not in _DISCHARGE_CACHE:
        _DISCHARGE_CACHE[key] = _discharge(db, body, tm, s)
    return _DISCHARGE_CACHE[key]


def _discharge(db, body, tm, s):
    # constant offsets are below PAGE_SIZE by construction of the mask: offset = address & (PAGE_SIZE - 1)
    if s["fn"] in (PAGE + "::store", PAGE + "::load") and s["kind"] in ("bounds", "index"):
        # premise: every caller passes `address & (PAGE_SIZE - 1)` and pages are created with PAGE_SIZE cells
        ok = True
        for d, b in db.mir.items():
            for i, t in mir_calls(b):
                if mir_callee(t) == s["fn"]:
                    ctm = Terms(b, db)
                    off = ctm.operand(t["args"][1])
                    masked = _masked(db, off)
                    ok = ok and masked
        for d, b in db.mir.items():
            for i, t in mir_calls(b):
                if mir_callee(t) == PAGE + "::new":
                    a = t["args"][0].get("k", {})
                    ok = ok and (a.get("uneval", "").endswith("PAGE_SIZE") or a.get("int") == 1024)
        if ok:
            return "offset is address & (PAGE_SIZE-1) at every call site and every page has PAGE_SIZE cells (checked)"
    return None


def _masked(db, t, depth=0):
    """The term contains a bit-mask, directly or in the return value of a local helper it calls (one or two levels)."""
    for x in subterms(t):
        if not isinstance(x, tuple) or not x:
            continue
        if x[0] == "bin" and x[1] == "BitAnd":
            return True
        if x[0] == "call" and depth < 2 and x[1] in db.mir and x[1].startswith("memory::paged::"):
            hb = db.mir[x[1]]
            htm = Terms(hb, db)
            if _masked(db, htm.local(0), depth + 1):
                return True
    return False


SITE_ALLOW = {
    MEM + "::store|unwrap@unwrap|0":
        "the value re-loaded from the start of a Value cell that a Backref pointed at (left_bits > 0 of an existing "
        "value) is Some: load() of a present Value cell returns Some or an error, never Ok(None)",
    MEM + "::store|unwrap@memory::paged::MemoryCell::<V>::value|0":
        "a Backref cell always points at a Value cell written by the same store_no_backref call (invariant of the "
        "only writer of Backref cells); the parallel site for the cell after the write returns an error instead",
    MEM + "::store|unwrap@memory::paged::Memory::<V>::load_cell|0":
        "a Backref cell's target cell exists: both are written by the same store_no_backref call",
}


MANIFEST = {
    "technique": "static analysis: who-may-mutate rule on MIR def-use terms, finite-case abstract evaluation of Option chains, MIR dominance, unit inference, call-graph panic reachability",
    "text": "Decides the structural clauses of the paged-memory property on every run: copy-on-write discipline (every page "
            "mutation through RC::make_mut or on a fresh page; no field write, Rc/Arc escape hatch or &mut-returning API "
            "elsewhere) which is what makes clones independent; reflexive equality and the permission fallback by "
            "enumerating the finitely many presence cases over the HIR; the width contract; address/length units of the "
            "permission loop; stores not touching permissions; reachable panic sites. It does not decide the byte-exact "
            "value splitting/joining, page-crossing or endianness arithmetic of store/load.",
    "note": "Trusted: rustc nightly HIR/MIR; pure-getter assumption for backing()/permissions() in the finite-case "
            "evaluation; parameter names len/length/size as the only source of the 'length' unit (a rename makes R6 "
            "undecided, never an alarm); two reasoned allow-list entries on the Backref invariant.",
}
