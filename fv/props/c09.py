"""C09 — the fixed-point engine.

Decided: direction mirror of the two solvers (R1), outcome of the ordering test for each of the four
possible comparison results and what is done with it (R2), step budget before every transfer (R3), the
predecessor fold invents no state (R4), work-list pairing when a mirror set of the queue exists (R5),
recording and enqueueing order (R6). Not decided: that the returned map is the least solution.
"""
from armlib import arm_table, last_seg, main_match, select_arm, unq
from db import Cfg, callee, mir_callee, mir_calls, walk, local_of, strip
from mirterm import bodies_under, calls_in, params_of, show, subterms, terms_of

FWD = "analysis::fixed_point::fixed_point_forward_options"
BWD = "analysis::fixed_point::fixed_point_backward_options"


def run(db, rep, feat, tier):
    rep.explanation = (
        "Static rules over HIR/MIR of lib/analysis/fixed_point.rs: the forward solver seeds from entry()/first(), "
        "joins exactly the states of backward() of the popped location and enqueues forward(); the backward solver is "
        "its mirror image; for each of the four results of partial_cmp (None, Less, Equal, Greater) the ordering match "
        "is evaluated on the patterns: Equal skips, Greater is accepted, Less and incomparable lead to the forced join "
        "or to Err(FixedPointOrdering); the step budget test and increment dominate every transfer; the fold over "
        "neighbours returns its accumulator unchanged for neighbours without state; if a set mirrors the queue, every "
        "path from pop_front back to the loop head removes from it; the new state is recorded before successors are "
        "enqueued. Least-ness of the result is not decided.")
    for f in (FWD, BWD):
        rep.anchor(f in db.mir and f in db.hir, f)
    cache = {}
    roles = {}
    r1 = rep.rule("R1", "K5", "direction mirror: forward = (entry, first, join over backward(), enqueue forward()), "
                  "backward = (exit, last, join over forward(), enqueue backward()); the joined set is the complete "
                  "neighbour set of the popped location on every path")
    for fn in (FWD, BWD):
        roles[fn] = solver_roles(db, rep, r1, fn, cache)
    want = {FWD: ("entry", "first", "backward", "forward"), BWD: ("exit", "last", "forward", "backward")}
    for fn in (FWD, BWD):
        got = roles[fn]
        for i, role in enumerate(("seed", "seed_instruction", "join_over", "enqueue")):
            r1.decide(got[i] == want[fn][i], "%s|%s" % (fn, role), db.where(db.mir[fn]),
                      "%s of %s is %s, expected %s" % (role, last_seg(fn), got[i], want[fn][i]))
    r2(db, rep)
    r3(db, rep, cache)
    r4(db, rep, cache)
    r5(db, rep, cache)
    r6(db, rep)
    r7(db, rep, cache)
    # the solver walks the program through RefProgramLocation::forward / backward: positional traversal (C18)
    import idxkind
    idxkind.rule(db, rep, "R8")


def solver_roles(db, rep, r1, fn, cache):
    body = db.mir[fn]
    rep.analysed(fn)
    tm = terms_of(db, fn, cache)
    cfg = Cfg(body)
    seed = seed_ins = join_over = enq = None
    pop = [i for i, t in mir_calls(body) if (mir_callee(t) or "").endswith("VecDeque::<T, A>::pop_front")]
    rep.anchor(len(pop) == 1, "one pop_front in %s" % fn)
    for i, t in mir_calls(body):
        c = mir_callee(t) or ""
        if c == "il::control_flow_graph::ControlFlowGraph::block":
            names = {last_seg(x[1]) for x in calls_in(tm.operand(t["args"][1]))} & {"entry", "exit"}
            seed = "+".join(sorted(names)) or None
        if c.endswith("::first") or c.endswith("::last"):
            if "Instruction" in t.get("fg", ""):
                seed_ins = last_seg(c)
        if c.endswith("FixedPointAnalysis::trans") or (t.get("f") or "").endswith("FixedPointAnalysis::trans"):
            st = tm.operand(t["args"][2])
            folds = [x for x in calls_in(st) if last_seg(x[1]) == "fold"]
            # the neighbour set: the receiver of the fold, or - when a helper of the solver does the folding - the iterator it is given
            helper_calls = [x for x in calls_in(st) if x[1] in db.mir and db.mir[x[1]].get("file", "").endswith("fixed_point.rs")]
            if folds or helper_calls:
                recv = folds[0][2][0] if folds else ("tuple", tuple(helper_calls[0][2]))
                names = {last_seg(x[1]) for x in calls_in(recv)} & {"forward", "backward"}
                join_over = "+".join(sorted(names)) or None
                has_phi = any(s[0] == "phi" for s in subterms(recv))
                popped = any(last_seg(x[1]) == "pop_front" for x in calls_in(recv))
                r1.decide(not has_phi and popped, "%s|join_set_complete" % fn, db.where(body, t["l"]),
                          "the set of neighbour states joined before the transfer is not the complete %s set of the "
                          "popped location on every path: %s" % (join_over, show(recv)[:160]))
        if c.endswith("VecDeque::<T, A>::push_back") and pop and cfg.dominates(pop[0], i):
            names = {last_seg(x[1]) for x in calls_in(tm.operand(t["args"][1]))} & {"forward", "backward"}
            enq = "+".join(sorted(names)) or None
    return (seed, seed_ins, join_over, enq)


def ordering_match(hb):
    """The match over the Option<Ordering> returned by partial_cmp."""
    for n in walk(hb["body"]):
        if n.get("k") == "Match" and n.get("src") == "Normal":
            sc = unq(n["scrut"])
            if sc.get("k") == "MethodCall" and sc.get("m", "").endswith("PartialOrd::partial_cmp"):
                return n
    return None


def outcome(n):
    """Classify what an arm body yields: 'continue', 'some' (an ordering complaint), 'none' (accepted), or a
    nested decision (dict value->outcome)."""
    b = unq(n)
    if b.get("k") == "Block" and b.get("stmts") and len(b["stmts"]) == 1 and "expr" not in b:
        s = b["stmts"][0]
        if s.get("k") == "Expr":
            b = unq(s["e"])
    if b.get("k") == "Continue":
        return "continue"
    if b.get("k") == "Call" and last_seg(b.get("fn", {}).get("ctor_of", "") or "") == "Some":
        return "some"
    if b.get("k") == "Path" and last_seg(b["res"].get("ctor_of", "") or b["res"].get("def", "") or "") == "None":
        return "none"
    if b.get("k") == "Match" and b.get("src") == "Normal":
        return ("match", b)
    return "?"


def evaluate(match, value):
    """Outcome of the (possibly nested) ordering match for one comparison result."""
    i = select_arm(match, value)
    if i is None:
        return "?"
    o = outcome(match["arms"][i]["body"])
    if isinstance(o, tuple):
        inner = o[1]
        # nested match on the bound ordering: value is the payload of Some
        if value[0] == "Some":
            return evaluate(inner, value[1])
        return "?"
    return o


class _Continue(Exception):
    pass


def _bind(p, value, env):
    k = p.get("k")
    if k == "Bind":
        env[p["hid"]] = value
        if "sub" in p:
            _bind(p["sub"], value, env)
    elif k in ("Ref", "Box", "Deref"):
        _bind(p["p"], value, env)
    elif k == "TupleStruct":
        for x, v in zip(p["ps"], value[1:]):
            _bind(x, v, env)


def evalv(db, e, env, cmp_value, depth=0):
    """Constructor-tree value of a HIR expression built from enum constructors, literals, bound names, matches and calls of
    crate functions of that kind; the one call of partial_cmp evaluates to `cmp_value`.  `continue` raises _Continue.
    Returns None when the expression is outside this fragment."""
    if depth > 8:
        return None
    b = unq(e)
    k = b.get("k")
    if k == "Block":
        sts = b.get("stmts") or []
        if not sts and b.get("expr"):
            return evalv(db, b["expr"], env, cmp_value, depth + 1)
        if len(sts) == 1 and not b.get("expr") and sts[0].get("k") == "Expr":
            return evalv(db, sts[0]["e"], env, cmp_value, depth + 1)
        return None
    if k == "Continue":
        raise _Continue()
    if k == "Lit":
        return ("lit",)
    if k == "Path":
        r_ = b.get("res", {})
        if "hid" in r_ and r_["hid"] in env:
            return env[r_["hid"]]
        nm = last_seg(r_.get("ctor_of", "") or "")
        return (nm,) if nm else None
    if k == "MethodCall" and b.get("m", "").endswith("PartialOrd::partial_cmp"):
        return cmp_value
    if k == "Call":
        ctor = last_seg(b.get("fn", {}).get("ctor_of", "") or "")
        if ctor:
            args = [evalv(db, a, env, cmp_value, depth + 1) for a in b["args"]]
            return None if any(a is None for a in args) else (ctor,) + tuple(args)
        h = db.hir.get(callee(b) or "")
        if h is not None and h.get("file", "").endswith("fixed_point.rs"):
            # a helper of the solver: evaluate its body (its parameters are opaque; only the comparison result matters)
            return evalv(db, h["body"], {}, cmp_value, depth + 1)
        return None
    if k == "Match" and b.get("src") == "Normal":
        sv = evalv(db, b["scrut"], env, cmp_value, depth + 1)
        if sv is None:
            return None
        i = select_arm(b, sv)
        if i is None:
            return None
        e1 = dict(env)
        _bind(b["arms"][i]["pat"], sv, e1)
        return evalv(db, b["arms"][i]["body"], e1, cmp_value, depth + 1)
    return None


def ordering_decision(db, hb):
    """The match that decides what to do with the comparison of the new and the recorded state: its scrutinee is the
    partial_cmp call itself or a call of a helper of the solver that makes that call."""
    for n in walk(hb["body"]):
        if n.get("k") == "Match" and n.get("src") == "Normal":
            sc = unq(n["scrut"])
            if sc.get("k") == "MethodCall" and sc.get("m", "").endswith("PartialOrd::partial_cmp"):
                return n
            h = db.hir.get(callee(sc) or "") if sc.get("k") == "Call" else None
            if h is not None and h.get("file", "").endswith("fixed_point.rs") and \
                    any(x.get("k") == "MethodCall" and x.get("m", "").endswith("PartialOrd::partial_cmp") for x in walk(h["body"])):
                return n
    return None


def iflet_chain(db, hb):
    """The decision written without a match: `let c = <comparison helper>(..); if let P1 = c { continue } ... else if let P2(x) = c
    { return Err(FixedPointOrdering(..)) }`.  Returns (init expression of c, [if-let nodes on c])."""
    from db import all_patterns
    for n in walk(hb["body"]):
        for st in n.get("stmts", ()) or ():
            if st.get("k") != "Let" or st.get("pat", {}).get("k") != "Bind" or "init" not in st:
                continue
            init = unq(st["init"])
            h = db.hir.get(callee(init) or "") if init.get("k") in ("Call", "MethodCall") else None
            if h is None or not h.get("file", "").endswith("fixed_point.rs") or \
                    not any(x.get("k") == "MethodCall" and x.get("m", "").endswith("PartialOrd::partial_cmp") for x in walk(h["body"])):
                continue
            hid = st["pat"]["hid"]
            ifs = []
            for x in walk(hb["body"]):
                if x.get("k") == "If":
                    c = unq(x["c"])
                    if c.get("k") == "LetExpr":
                        sc = unq(c["init"])
                        if sc.get("k") == "Path" and sc.get("res", {}).get("hid") == hid:
                            ifs.append(x)
            if ifs:
                return (st["init"], ifs)
    return None


def eval_chain(db, chain, cmp_value):
    """'continue' / 'some' (a complaint: the branch returning Err(FixedPointOrdering)) / 'none' for one comparison result."""
    from armlib import pat_matches
    init, ifs = chain
    v = evalv(db, init, {}, cmp_value)
    if v is None:
        return "?"
    for x in ifs:
        c = unq(x["c"])
        hit = pat_matches(c["pat"], v)
        if hit is None:
            return "?"
        if not hit:
            continue
        if any(y.get("k") == "Continue" for y in walk(x["then"])):
            return "continue"
        if any(y.get("k") == "Ret" and any(last_seg(z.get("fn", {}).get("ctor_of", "") or "") == "FixedPointOrdering"
                                           for z in walk(y) if z.get("k") == "Call") for y in walk(x["then"])):
            return "some"
    return "none"


def r2(db, rep):
    r = rep.rule("R2", "K4", "ordering test, evaluated on the match patterns for each possible result of partial_cmp: "
                 "Equal -> skip, Greater -> accept, Less / incomparable -> complaint; a complaint is followed by the "
                 "forced join or Err(FixedPointOrdering), never by silently recording the state")
    want = {("None",): "some", ("Some", ("Less",)): "some", ("Some", ("Equal",)): "continue",
            ("Some", ("Greater",)): "none"}
    for fn in (FWD, BWD):
        hb = db.hir[fn]
        m = ordering_decision(db, hb)
        chain = None
        if m is None:
            chain = iflet_chain(db, hb)
        rep.anchor(m is not None or chain is not None, "match over partial_cmp in %s" % fn)
        for val, w in want.items():
            if m is None:
                got = eval_chain(db, chain, val)
                name = val[0] if len(val) == 1 else val[1][0]
                r.decide(got == w, "%s|cmp=%s" % (fn, name), db.where(hb, chain[1][0]["l"]),
                         "when the new state compares %s to the recorded one the solver yields '%s', expected '%s'" % (name, got, w))
                continue
            try:
                v = evalv(db, m, {}, val)
                got = "?" if v is None else {"Some": "some", "None": "none"}.get(v[0], "?")
            except _Continue:
                got = "continue"
            name = val[0] if len(val) == 1 else val[1][0]
            r.decide(got == w, "%s|cmp=%s" % (fn, name), db.where(hb, m["l"]),
                     "when the new state compares %s to the recorded one the solver yields '%s', expected '%s'"
                     % (name, got, w))
        # use of the complaint: if force {state = join(..)} else if let Some(..) = ordering { return Err(..) }
        ok = False
        for n in walk(hb["body"]):
            if n.get("k") != "If":
                continue
            c = strip(n["c"])
            if not (c.get("k") == "Path" and c["res"].get("local") is not None):
                continue
            # condition is a bare bool parameter (force)
            pnames = [p.get("name") for p in hb["params"]]
            if c["res"]["local"] not in pnames:
                continue
            then_join = any((callee(x) or "").endswith("FixedPointAnalysis::join") for x in walk(n["then"]))
            els = n.get("else")
            err = False
            if els is not None:
                for x in walk(els):
                    if x.get("k") == "Ret":
                        if any(last_seg(y.get("fn", {}).get("ctor_of", "") or "") == "FixedPointOrdering"
                               for y in walk(x) if y.get("k") == "Call"):
                            # under `if let Some(..) = ordering`
                            err = True
            if then_join and err:
                ok = True
        r.decide(ok, "%s|complaint_use" % fn, db.where(hb),
                 "a complaint must lead to the forced join (force) or to Err(FixedPointOrdering)")


def r3(db, rep, cache):
    r = rep.rule("R3", "K6", "forward solver: the comparison of the step counter with the budget parameter, "
                 "returning Err(FixedPointMaxSteps), and the counter increment dominate every transfer call")
    body = db.mir[FWD]
    tm = terms_of(db, FWD, cache)
    cfg = Cfg(body)
    trans = [i for i, t in mir_calls(body) if (t.get("f") or "").endswith("FixedPointAnalysis::trans")]
    rep.anchor(trans, "trans call in forward solver")
    guard = None
    for i, b in enumerate(body["blocks"]):
        t = b["t"]
        if t["k"] == "SwitchInt":
            c = tm.operand(t["discr"])
            if c[0] == "bin" and c[1] in ("Gt", "Ge") and c[3] == ("param", 4):
                # the true side must construct FixedPointMaxSteps
                true_side = t["otherwise"]
                reach = cfg.reachable(true_side, avoid=[bb for _v, bb in t["targets"]])
                err_blocks = [j for j in reach for s in body["blocks"][j]["s"]
                              if s.get("rv", {}).get("variant") == "Error::FixedPointMaxSteps"]
                if err_blocks:
                    guard = (i, [bb for _v, bb in t["targets"]][0])
                    # once the budget is exceeded nothing but the error is returned: no path from the true side reaches a
                    # return (or the solver's state) without constructing FixedPointMaxSteps
                    esc = cfg.reachable(true_side, avoid=err_blocks + [bb for _v, bb in t["targets"]])
                    leaks = [j for j in esc if body["blocks"][j]["t"]["k"] == "Return"]
                    r.decide(not leaks, "budget|exceeded_is_error", db.where(body, t["l"]),
                             "when the step budget is exceeded a path returns without Err(FixedPointMaxSteps): an unconverged "
                             "(unsound) state map can be handed back as a result")
    inc = [i for i, b in enumerate(body["blocks"]) if b["t"]["k"] == "Assert" and b["t"]["ak"] == "Overflow"
           and b["t"]["detail"]["op"] == "Add"]
    for tr in trans:
        okg = guard is not None and cfg.dominates(guard[1], tr)
        oki = any(cfg.dominates(i, tr) for i in inc)
        r.decide(okg and oki, "budget|%d" % trans.index(tr), db.where(body, body["blocks"][tr]["t"]["l"]),
                 "transfer reachable without passing the step-budget test / increment")


def r7(db, rep, cache):
    r = rep.rule("R7", "K7", "seeding: before the work-list loop the queue receives only the location built from the graph's entry "
                 "(forward) or exit (backward); locations that the direction's start cannot reach must not be given a state")
    for fn, acc in ((FWD, "::entry"), (BWD, "::exit")):
        body = db.mir[fn]
        tm = terms_of(db, fn, cache)
        cfg = Cfg(body)
        pops = [i for i, t in mir_calls(body) if (mir_callee(t) or "").endswith("VecDeque::<T, A>::pop_front")]
        rep.anchor(len(pops) == 1, "pop_front in %s" % fn)
        in_loop = cfg.reachable(pops[0])
        seeds = [(i, t) for i, t in mir_calls(body) if (mir_callee(t) or "").endswith(("VecDeque::<T, A>::push_back", "VecDeque::<T, A>::push_front"))
                 and i not in in_loop]
        rep.anchor(bool(seeds), "seed of the work list in %s" % fn)
        for n, (i, t) in enumerate(seeds):
            a = tm.operand(t["args"][1])
            from_start = any(isinstance(x, tuple) and x and x[0] == "call" and str(x[1]).endswith("ControlFlowGraph" + acc) for x in subterms(a))
            other = [str(x[1]) for x in subterms(a) if isinstance(x, tuple) and x and x[0] == "call" and
                     any(k in str(x[1]) for k in ("vertices", "blocks", "without_successors", "without_predecessors"))]
            r.decide(from_start and not other, "%s|seed|%d" % (last_seg(fn), n), db.where(body, t.get("l")),
                     "the work list is seeded with a location that is not the graph's %s (derived from %s)" % (acc[2:], other[:2]))


def r4(db, rep, cache):
    r = rep.rule("R4", "K4", "the fold over neighbour states returns the accumulator unchanged when a neighbour has "
                 "no recorded state, clones the first recorded state and joins further ones (no state is invented)")
    for fn in (FWD, BWD):
        hb = db.hir[fn]
        found = False
        from armlib import unit_bodies
        # the fold may be written in the solver or in a private helper of the same file that it hands the neighbour states to
        for n in (x for b_ in unit_bodies(db, hb) for x in walk(b_["body"])):
            if n.get("k") == "MethodCall" and n["name"] == "fold" and n["args"]:
                init = unq(n["args"][0])
                init_none = init.get("k") == "Path" and last_seg(init["res"].get("def", "") or init["res"].get("ctor_of", "") or "") == "None"
                clo = n["args"][1]
                if clo.get("k") != "Closure":
                    continue
                acc = clo["params"][0].get("name")
                m = None
                for x in walk(clo["body"]):
                    if x.get("k") == "Match" and x.get("src") == "Normal":
                        sc = unq(x["scrut"])
                        if sc.get("k") == "MethodCall" and sc["name"] == "get":
                            m = x
                            break
                if m is None and len(clo["params"]) >= 2:
                    # the elements are already the looked-up states (`Option<&State>`): the step matches on the element itself
                    elem = clo["params"][1].get("name")
                    for x in walk(clo["body"]):
                        if x.get("k") == "Match" and x.get("src") == "Normal":
                            sc = unq(x["scrut"])
                            if sc.get("k") == "Path" and sc.get("res", {}).get("local") == elem and elem is not None:
                                m = x
                                break
                if m is None:
                    # the step may live in a helper that receives the accumulator and the looked-up neighbour state
                    for x in walk(clo["body"]):
                        hf = db.hir.get(callee(x) or "") if x.get("k") == "Call" else None
                        if hf is None:
                            continue
                        args = [unq(a) for a in x["args"]]
                        i_acc = [i for i, a in enumerate(args) if a.get("k") == "Path" and a.get("res", {}).get("local") == acc]
                        i_nb = [i for i, a in enumerate(args) if a.get("k") == "MethodCall" and a["name"] == "get"]
                        if len(i_acc) == 1 and len(i_nb) == 1 and len(hf.get("params", [])) == len(args):
                            nb = hf["params"][i_nb[0]].get("name")
                            for y in walk(hf["body"]):
                                if y.get("k") == "Match" and y.get("src") == "Normal":
                                    sc = unq(y["scrut"])
                                    if sc.get("k") == "Path" and sc.get("res", {}).get("local") == nb:
                                        m = y
                                        acc = hf["params"][i_acc[0]].get("name")
                                        break
                        if m is not None:
                            break
                if m is None:
                    continue
                found = True
                i_none = select_arm(m, ("None",))
                ok_none = False
                if i_none is not None:
                    bdy = unq(m["arms"][i_none]["body"])
                    ok_none = bdy.get("k") == "Path" and bdy["res"].get("local") == acc
                i_some = select_arm(m, ("Some", ("x",)))
                ok_some = False
                if i_some is not None:
                    cs = [callee(x) or "" for x in walk(m["arms"][i_some]["body"])]
                    ok_some = any(c.endswith("FixedPointAnalysis::join") for c in cs) and any(c.endswith("Clone::clone") for c in cs)
                r.decide(init_none and ok_none and ok_some, "%s|fold" % fn, db.where(hb, n["l"]),
                         "fold over neighbour states must start from None, pass the accumulator through for a "
                         "neighbour without state and join/clone otherwise")
        rep.anchor(found, "neighbour fold in %s" % fn)


def r5(db, rep, cache):
    r = rep.rule("R5", "K6", "work-list discipline: successors are enqueued unless the queue itself contains them; "
                 "if membership is decided by another collection (a mirror set), every path from pop_front back to "
                 "the loop head removes the popped location from it")
    for fn in (FWD, BWD):
        body = db.mir[fn]
        tm = terms_of(db, fn, cache)
        cfg = Cfg(body)
        pop = [i for i, t in mir_calls(body) if (mir_callee(t) or "").endswith("::pop_front")][0]
        heads = [i for i, t in mir_calls(body) if (mir_callee(t) or "").endswith("VecDeque::<T, A>::is_empty")]
        pushes = [i for i, t in mir_calls(body) if (mir_callee(t) or "").endswith("::push_back") and cfg.dominates(pop, i)]
        rep.anchor(heads and pushes, "work-list loop in %s" % fn)
        for p in pushes:
            # the conditional that guards this push
            x = p
            guard_term = None
            seen = set()
            while x not in seen:
                seen.add(x)
                ps = cfg.pred[x]
                if len(ps) != 1:
                    break
                x = ps[0]
                if body["blocks"][x]["t"]["k"] == "SwitchInt":
                    guard_term = tm.operand(body["blocks"][x]["t"]["discr"])
                    break
            key = "%s|enqueue_guard|%d" % (fn, pushes.index(p))
            if guard_term is None:
                r.open(key, db.where(body, body["blocks"][p]["t"]["l"]), "enqueue is unconditional (duplicates allowed)")
                continue
            cs = calls_in(guard_term)
            by_queue = any(c[1].endswith("VecDeque::<T, A>::contains") for c in cs)
            if by_queue:
                r.ok(key, db.where(body, body["blocks"][p]["t"]["l"]), detail={"guard": show(guard_term)[:120]})
                continue
            # mirror collection: find its remove calls; must be on every path pop -> loop head
            mirror = [c for c in cs if last_seg(c[1]) in ("contains", "insert")]
            if not mirror:
                r.open(key, db.where(body, body["blocks"][p]["t"]["l"]), "unrecognised enqueue guard %s" % show(guard_term)[:100])
                continue
            coll = mirror[0][1].rsplit("::", 1)[0]
            removes = [i for i, t in mir_calls(body) if (mir_callee(t) or "").startswith(coll) and last_seg(mir_callee(t)) in ("remove", "take")]
            reach = cfg.reachable(pop, avoid=removes)
            leak = [h for h in heads if h in reach and h != pop]
            r.decide(bool(removes) and not leak, key, db.where(body, body["blocks"][p]["t"]["l"]),
                     "queue membership is mirrored in %s but a path from pop_front back to the loop head skips its "
                     "remove(): the location stays marked as queued and is never re-enqueued" % coll)


def r6(db, rep):
    r = rep.rule("R6", "K6", "the new state is recorded (states.insert) on the path to enqueueing neighbours, and the "
                 "Equal outcome reaches the loop head without recording or enqueueing")
    for fn in (FWD, BWD):
        body = db.mir[fn]
        cfg = Cfg(body)
        ins = [i for i, t in mir_calls(body) if (mir_callee(t) or "").endswith("HashMap::<K, V, S, A>::insert")]
        pop = [i for i, t in mir_calls(body) if (mir_callee(t) or "").endswith("::pop_front")][0]
        pushes = [i for i, t in mir_calls(body) if (mir_callee(t) or "").endswith("::push_back") and cfg.dominates(pop, i)]
        rep.anchor(len(ins) == 1, "one states.insert in %s" % fn)
        r.decide(all(cfg.dominates(ins[0], p) for p in pushes), "%s|record_before_enqueue" % fn, db.where(body),
                 "neighbours are enqueued on a path that did not record the new state")


MANIFEST = {
    "technique": "static analysis: role extraction by MIR def-use terms (direction mirror), finite evaluation of match patterns, MIR dominance / must-pass queries",
    "text": "Decides structural necessary conditions of the work-list solvers from the current tree's HIR/MIR: the two "
            "solvers are mirror images seeded from entry/exit, join exactly the neighbours' states of the popped location "
            "and enqueue the opposite neighbours; the ordering match yields skip/accept/complain for Equal/Greater/"
            "Less-or-incomparable (all four comparison outcomes enumerated on the patterns) and a complaint ends in a forced "
            "join or Err(FixedPointOrdering); budget test and increment dominate every transfer; the neighbour fold "
            "invents no state; a mirror set of the queue is released on every path. It does not decide that the "
            "returned map is the least solution nor termination for a given lattice.",
    "note": "Trusted: rustc nightly HIR/MIR; names of falcon's public location API (entry, exit, forward, backward). "
            "The backward solver has no step budget in the pinned tree (not part of a rule).",
}
