"""C03 — AArch64 lifter.

Decided (structural necessary conditions of agreement with the Arm ARM pseudocode): the register table is exact
(names, widths, W->X / WZR->XZR / WSP->SP aliasing, unique ids, every full register present) and get/set treat exactly
XZR/WZR as zero and widen with zext (R1); the condition of every B.cond is, as a truth table over N,Z,C,V, the
ConditionHolds() predicate of its mnemonic, with the complementary fall-through (R2); every dispatched mnemonic satisfies
its reference row: flags written only by ADDS/SUBS, access widths and extension kinds of the load/store family, link
register writers, indirect transfers, compare-and-branch polarity (R3); operand snapshot: no operand register is read
after another operand register was written, except write-back after the transfer (R4); widths (R5), successor
exclusivity (R6), entry/exit (R7), progress/default arm (R8), terminators (R9).
Not decided: flag values at carry/overflow boundaries (the C flag of SUBS is a known finding pinned by the suite),
immediates, shift amounts.
"""
import itertools

from armlib import last_seg
from db import callee, int_lit, pat_leaves, pat_path, walk
import bitprov
import ilshape
import lifters
import tables
import props.c05 as c05
import props.c02 as c02

FLAGS = {"n", "z", "c", "v"}
# Arm ARM C1.2.4 condition codes, written per mnemonic (not derived from the encoding)
COND = {
    "EQ": (0b0000, lambda n, z, c, v: z == 1), "NE": (0b0001, lambda n, z, c, v: z == 0),
    "CS": (0b0010, lambda n, z, c, v: c == 1), "CC": (0b0011, lambda n, z, c, v: c == 0),
    "MI": (0b0100, lambda n, z, c, v: n == 1), "PL": (0b0101, lambda n, z, c, v: n == 0),
    "VS": (0b0110, lambda n, z, c, v: v == 1), "VC": (0b0111, lambda n, z, c, v: v == 0),
    "HI": (0b1000, lambda n, z, c, v: c == 1 and z == 0), "LS": (0b1001, lambda n, z, c, v: not (c == 1 and z == 0)),
    "GE": (0b1010, lambda n, z, c, v: n == v), "LT": (0b1011, lambda n, z, c, v: n != v),
    "GT": (0b1100, lambda n, z, c, v: z == 0 and n == v), "LE": (0b1101, lambda n, z, c, v: not (z == 0 and n == v)),
    "AL": (0b1110, None), "NV": (0b1111, None),
}

NOFLAGS = {"Wn": FLAGS}
LOADZ = {"kinds": {"Load"}, "kindsn": {"Store", "Branch"}, "opsn": {"Sext"}, "Wn": FLAGS}
STORE = {"kinds": {"Store"}, "kindsn": {"Load", "Branch"}, "Wn": FLAGS}
REF = {
    "ADD": {"ops": {"Add"}, "kindsn": {"Load", "Store", "Branch"}, "Wn": FLAGS},
    "SUB": {"ops": {"Sub"}, "kindsn": {"Load", "Store", "Branch"}, "Wn": FLAGS},
    "ADDS": {"ops": {"Add"}, "W": FLAGS, "kindsn": {"Load", "Store", "Branch"}},
    "SUBS": {"ops": {"Sub"}, "W": FLAGS, "kindsn": {"Load", "Store", "Branch"}},
    "MOV": {"kindsn": {"Load", "Store", "Branch"}, "Wn": FLAGS},
    "NOP": {"kindsn": {"Load", "Store", "Branch", "Assign"}},
    "BL": {"W": {"x30"}, "kinds": {"Branch"}, "Wn": FLAGS}, "BLR": {"W": {"x30"}, "kinds": {"Branch"}, "Wn": FLAGS, "target_reads_operand": True},
    "BR": {"kinds": {"Branch"}, "Wn": FLAGS | {"x30"}, "target_reads_operand": True},
    "RET": {"kinds": {"Branch"}, "Wn": FLAGS | {"x30"}, "target_reads_operand": True, "R": {"x30"}},
    "B": {"succ": 1, "kindsn": {"Branch", "Assign", "Load", "Store"}},
    "CBZ": {"succ": 2, "taken_if_zero": True, "kindsn": {"Assign", "Load", "Store"}},
    "CBNZ": {"succ": 2, "taken_if_zero": False, "kindsn": {"Assign", "Load", "Store"}},
    "TBZ": {"succ": 2, "taken_if_zero": True, "ops": {"And"}, "kindsn": {"Assign", "Load", "Store"}},
    "TBNZ": {"succ": 2, "taken_if_zero": False, "ops": {"And"}, "kindsn": {"Assign", "Load", "Store"}},
    "LDP": dict(LOADZ, nload=2), "LDNP": dict(LOADZ, nload=2),
    "LDPSW": {"kinds": {"Load"}, "kindsn": {"Store"}, "load": 32, "nload": 2, "ops": {"Sext"}, "Wn": FLAGS, "sext_all": True},
    "STP": dict(STORE, nstore=2), "STNP": dict(STORE, nstore=2),
}
for _m in ("LDR", "LDUR", "LDAR", "LDLAR"):
    REF[_m] = dict(LOADZ, nload=1)
for _m in ("LDRB", "LDURB", "LDARB", "LDLARB"):
    REF[_m] = dict(LOADZ, load=8, nload=1)
for _m in ("LDRH", "LDURH", "LDARH", "LDLARH"):
    REF[_m] = dict(LOADZ, load=16, nload=1)
for _m, _w in (("LDRSB", 8), ("LDURSB", 8), ("LDRSH", 16), ("LDURSH", 16), ("LDRSW", 32), ("LDURSW", 32)):
    REF[_m] = {"kinds": {"Load"}, "kindsn": {"Store"}, "load": _w, "nload": 1, "ops": {"Sext"}, "Wn": FLAGS, "sext_all": True}
for _m in ("STR", "STUR", "STLR", "STLLR", "STLUR"):
    REF[_m] = dict(STORE, nstore=1)
for _m in ("STRB", "STURB", "STLRB", "STLLRB", "STLURB"):
    REF[_m] = dict(STORE, store=8, nstore=1)
for _m in ("STRH", "STURH", "STLRH", "STLLRH", "STLURH"):
    REF[_m] = dict(STORE, store=16, nstore=1)
for _m in ("PRFB", "PRFD", "PRFH", "PRFM", "PRFUM", "PRFW"):
    REF[_m] = {"kindsn": {"Load", "Store", "Branch", "Assign"}}

TERMINATING = {"B", "BR", "CBZ", "CBNZ", "TBZ", "TBNZ", "RET"} | {"B_" + k for k in COND}

# reviewed: operand reads after an operand write that the architecture makes harmless; keyed by (handler, function of the read)
HAZARD_OK = {
    ("BL", "bl"): "BL's only operand is a PC-relative label (an immediate); the register alternatives of operand_load are not "
                  "produced by the decoder for BL, so the branch target never reads a register (BLR has its own handler)",
    ("LDP", "operand_store"): "the second destination's lane merge reads Rt2 after Rt was written; LDP with Rt == Rt2 is CONSTRAINED UNPREDICTABLE",
    ("LDNP", "operand_store"): "as LDP: Rt == Rt2 is CONSTRAINED UNPREDICTABLE",
    ("LDPSW", "operand_store"): "as LDP: Rt == Rt2 is CONSTRAINED UNPREDICTABLE",
    ("*", "apply"): "base-register write-back is emitted after the transfer registers are written; LDR/LDP with write-back and "
             "Rn == Rt (or Rt2) is CONSTRAINED UNPREDICTABLE (Arm ARM C6.2.13x), so the forms where this read sees a new "
             "value are not architecturally defined",
}


def class_bits(reg):
    """(name, bits, full register) the Arm ARM gives a bad64 register enumerator."""
    import re
    m = re.fullmatch(r"([WXVBHSDQZP])(\d+)", reg)
    if m:
        c, n = m.group(1), m.group(2)
        bits = {"W": 32, "X": 64, "V": 128, "B": 8, "H": 16, "S": 32, "D": 64, "Q": 128, "Z": 128, "P": 16}[c]
        full = {"W": "X", "X": "X", "V": "V", "B": "V", "H": "V", "S": "V", "D": "V", "Q": "V", "Z": "Z", "P": "P"}[c] + n
        return reg.lower(), bits, full
    # bad64 calls SIMD register 31 ?ZR; it is the ordinary v31
    return {"WZR": ("wzr", 32, "XZR"), "XZR": ("xzr", 64, "XZR"), "WSP": ("wsp", 32, "SP"), "SP": ("sp", 64, "SP"),
            "VZR": ("v31", 128, "VZR"), "BZR": ("b31", 8, "VZR"), "HZR": ("h31", 16, "VZR"), "SZR": ("s31", 32, "VZR"),
            "DZR": ("d31", 64, "VZR"), "QZR": ("q31", 128, "VZR")}.get(reg)


def r1(db, rep):
    r = rep.rule("R1", "K2", "AArch64 register table: each row's name, width and full register follow from its bad64 enumerator "
                 "(Wn->Xn 32, WZR->XZR, WSP->SP, B/H/S/D/Qn->Vn), ids are unique, every full register has a full row; "
                 "get() returns constant zero for exactly XZR/WZR; set() widens with zext")
    rows = tables.const_table(db, "translator::aarch64::register::AARCH64_REGISTERS")
    rep.anchor(rows is not None and len(rows) >= 300, "AARCH64_REGISTERS")
    ids = {}
    for row in rows:
        rid = last_seg(row["bad64_reg"])
        ids.setdefault(rid, []).append(row)
    for rid, rs in sorted(ids.items()):
        row = rs[0]
        want = class_bits(rid)
        where = "lib/translator/aarch64/register.rs:%s" % row["_line"]
        if want is None:
            r.open("row|%s" % rid, where, "no reference class for register %s" % rid)
            continue
        got = (row["name"], row["bits"], last_seg(row["bad64_full_reg"]))
        ok = len(rs) == 1 and got == want and want[2] in ids
        r.decide(ok, "row|%s" % rid, where, "register %s is (%s, %s bits, full %s); the architecture gives (%s, %s bits, full %s)%s" % (
            (rid,) + got + want + ("" if len(rs) == 1 else "; duplicated",)))
    for need in ["X%d" % i for i in range(31)] + ["W%d" % i for i in range(31)] + ["SP", "WSP", "XZR", "WZR"]:
        r.decide(need in ids, "present|%s" % need, "", "register %s has no row" % need)
    # get(): zero registers
    g = db.hir.get("translator::aarch64::register::AArch64Register::get")
    s = db.hir.get("translator::aarch64::register::AArch64Register::set")
    rep.anchor(g is not None and s is not None, "AArch64Register::get / set")
    # get()/set() are evaluated per table row (abstract interpretation + bit provenance), so the verdict does not depend
    # on how the two functions are written
    sh = ilshape.Shape(db)
    G, S = "translator::aarch64::register::AArch64Register::get", "translator::aarch64::register::AArch64Register::set"
    zero_ids, bad_get, n_get = set(), [], 0
    by = {last_seg(x["bad64_reg"]): x for x in rows}
    for rid, rs in sorted(ids.items()):
        row = rs[0]
        full = by.get(last_seg(row["bad64_full_reg"]))
        if full is None or not isinstance(row["bits"], int):
            continue
        res = sh.run(G, args={0: ("regrow", row)})
        got = bitprov.bits(res.ret) if ilshape.is_il(res.ret) else None
        n_get += 1
        if got is not None and len(got) == row["bits"] and all(x == 0 for x in got):
            zero_ids.add(rid)
            continue
        src = "scalar:%s" % row["name"] if full is row else "reg:%s" % last_seg(row["bad64_full_reg"])
        if got != [(src, i) for i in range(row["bits"])]:
            bad_get.append("%s.get() = %s" % (rid, bitprov.show(got) if got is not None else "?"))
    rep.anchor(n_get >= 300, "register rows evaluated through get() (%d)" % n_get)
    r.decide(zero_ids == {"XZR", "WZR"}, "get|zero_registers", db.where(g),
             "get() must return constant zero for exactly {XZR, WZR}; it does for %s" % sorted(zero_ids))
    r.decide(not bad_get, "get|low_bits_of_full", db.where(g),
             "get() must yield the register's own scalar (full rows) or the low bits of its full register: %s" % "; ".join(bad_get[:4]))
    bad_set, bad_asg, n_set = [], [], 0
    sub_widths = {}
    for rid, rs in ids.items():
        sub_widths.setdefault(last_seg(rs[0]["bad64_full_reg"]), set()).add(rs[0]["bits"])
    for rid, rs in sorted(ids.items()):
        row = rs[0]
        full = by.get(last_seg(row["bad64_full_reg"]))
        if full is None or not isinstance(row["bits"], int):
            continue
        if full is row:
            for w in sorted(x for x in sub_widths.get(rid, {row["bits"]}) if isinstance(x, int) and x <= row["bits"]):
                res = sh.run(S, args={0: ("regrow", row), 2: ilshape.opaque(w, "value")})
                asg = [o for o in res.ops if o["kind"] == "Assign"]
                n_set += 1
                if len(asg) != 1 or asg[0].get("dst") != row["name"] or asg[0].get("dw") != row["bits"]:
                    bad_asg.append("%s.set(%d-bit) assigns %s" % (rid, w, [(o.get("dst"), o.get("dw")) for o in asg]))
                    continue
                got = bitprov.bits(asg[0]["src"])
                want = [("value", i) if i < w else 0 for i in range(row["bits"])]
                if got != want:
                    bad_set.append("%s.set(%d-bit v) = %s" % (rid, w, bitprov.show(got) if got is not None else "?"))
        else:
            res = sh.run(S, args={0: ("regrow", row), 2: ilshape.opaque(row["bits"], "value")})
            asg = [o for o in res.ops if o["kind"] == "Assign"]
            n_set += 1
            # a narrow register delegates to its full register's set with the value unchanged
            if len(asg) != 1 or asg[0].get("dst") != full["name"] or asg[0].get("via") != "AArch64Register::set":
                bad_asg.append("%s.set assigns %s" % (rid, [(o.get("dst"), o.get("via")) for o in asg]))
                continue
            got = bitprov.bits(asg[0]["src"])
            if got != [("value", i) for i in range(row["bits"])]:
                bad_set.append("%s.set(v) hands %s to its full register" % (rid, bitprov.show(got) if got is not None else "?"))
    rep.anchor(n_set >= 300, "register rows evaluated through set() (%d)" % n_set)
    r.decide(not bad_set, "set|zero_extends", db.where(s),
             "set() must put the value in the low bits and clear the rest (32-bit writes clear the upper half): %s" % "; ".join(bad_set[:4]))
    r.decide(not bad_asg, "set|assigns_full", db.where(s), "set() must assign the full register's scalar once: %s" % "; ".join(bad_asg[:4]))
    r.floor(300, "register rows")


def truth(guard):
    """Truth table of a guard over (n, z, c, v), or None if it depends on anything else."""
    f = c05.formula(guard)
    if f is None:
        return None
    at = {}
    c05.atoms_of(f, at)
    names = {k for k in at if not isinstance(k, tuple)}
    if not names <= {"scalar:" + x for x in "nzcv"}:
        return None
    out = []
    for n, z, c, v in itertools.product((0, 1), repeat=4):
        asg = {"scalar:n": n, "scalar:z": z, "scalar:c": c, "scalar:v": v}
        out.append(c05.evalf(f, asg))
    return out


def r2(db, rep, hb, disp):
    r = rep.rule("R2", "K9", "B.cond: the literal passed by the dispatch is the mnemonic's condition code, and the guard b_cc builds "
                 "for that code is, as a truth table over N,Z,C,V, ConditionHolds() of the mnemonic; the fall-through guard is "
                 "its complement; AL/NV push one unguarded successor")
    sh = ilshape.Shape(db)
    bcc = "translator::aarch64::semantics::b_cc"
    rep.anchor(bcc in db.hir, "semantics::b_cc")
    by = disp.by_id()
    seen = 0
    for mn, (code, pred) in sorted(COND.items()):
        arm = by.get("B_" + mn)
        key = "B_%s" % mn
        if arm is None:
            r.bad(key, db.where(hb, disp.line), "B.%s is not dispatched" % mn)
            continue
        lits = [int_lit(n["args"][3]) for n in walk(arm["arm"].body) if (callee(n) or "") == bcc and len(n.get("args", ())) > 3]
        where = db.where(hb, arm["line"])
        if len(lits) != 1 or lits[0] is None:
            r.bad(key, where, "B.%s does not call b_cc with a literal condition" % mn)
            continue
        seen += 1
        if lits[0] != code:
            r.bad(key, where, "B.%s passes condition %s, the architecture encodes it as %s" % (mn, bin(lits[0]), bin(code)))
            continue
        res = sh.run(bcc, args={3: ilshape.I(lits[0])})
        gs = [s["guard"] for s in res.succ]
        if pred is None:
            r.decide(gs == [None], key, db.where(db.hir[bcc]), "B.%s must push exactly one unguarded successor, pushes %d" % (mn, len(gs)))
            continue
        if len(gs) != 2 or any(g in (None, "?") for g in gs):
            r.bad(key, db.where(db.hir[bcc]), "B.%s must push a taken and a fall-through successor with guards" % mn)
            continue
        t, f = truth(gs[0]), truth(gs[1])
        want = [bool(pred(n, z, c, v)) for n, z, c, v in itertools.product((0, 1), repeat=4)]
        if t is None or f is None:
            r.open(key, db.where(db.hir[bcc]), "guard of B.%s is not a boolean combination of n, z, c, v: %s" % (mn, ilshape.show_e(gs[0])))
            continue
        bad_rows = [i for i in range(16) if t[i] != want[i]]
        compl = all(t[i] != f[i] for i in range(16))
        msg = ""
        if bad_rows:
            i = bad_rows[0]
            msg = "B.%s is taken=%s when NZCV=%s, ConditionHolds gives %s (guard %s)" % (mn, t[i], format(i, "04b"), want[i], ilshape.show_e(gs[0]))
        elif not compl:
            msg = "the fall-through guard of B.%s is not the complement of the taken guard" % mn
        r.decide(not bad_rows and compl, key, db.where(db.hir[bcc]), msg, detail={"code": code, "taken": ilshape.show_e(gs[0])})
    r.floor(16, "condition mnemonics")


def signature(res):
    sig = c02.signature(res)
    sig["nload"] = sum(1 for o in res.ops if o["kind"] == "Load")
    sig["nstore"] = sum(1 for o in res.ops if o["kind"] == "Store")
    return sig


def r3(db, rep, hb, disp, runs):
    r = rep.rule("R3", "K3", "effect signature of the handler of every dispatched mnemonic satisfies its reference row: flags are "
                 "written by ADDS/SUBS only, loads/stores have the architectural access width, count and extension kind, BL/BLR "
                 "write x30 and BR/RET do not, compare/test-and-branch push complementary successors with the mnemonic's polarity")
    by = disp.by_id()
    sh = ilshape.Shape(db)
    for full_id, arm in sorted(by.items()):
        i = full_id
        if i.startswith("B_") and i[2:] in COND:
            continue
        hs = arm["handlers"]
        if not hs:
            continue       # Err(unsupported()) arms and the default arm: R8
        row = REF.get(i)
        if row is None:
            r.open("aarch64|%s" % i, db.where(hb, arm["line"]), "%s is lifted by %s but has no reference row" % (i, last_seg(hs[0])))
            continue
        res = runs.get(hs[0])
        if res is None:
            r.open("aarch64|%s" % i, db.where(hb, arm["line"]), "handler not interpreted")
            continue
        sig = signature(res)
        probs = []
        if not row.get("W", set()) <= sig["W"]:
            probs.append("must assign %s" % sorted(row["W"] - sig["W"]))
        if row.get("Wn", set()) & sig["W"]:
            probs.append("must not assign %s" % sorted(row["Wn"] & sig["W"]))
        if not row.get("ops", set()) <= sig["ops"]:
            probs.append("must use %s, uses %s" % (sorted(row["ops"] - sig["ops"]), sorted(sig["ops"])))
        if row.get("opsn", set()) & sig["ops"]:
            # extension inside the shared operand plumbing (shift / extend modifiers) is not the instruction's own
            own = {op for op in row["opsn"] & sig["ops"] if hs[0] in getattr(res, "op_sites", {}).get(op, ())}
            if own:
                probs.append("must not use %s" % sorted(own))
        if "load" in row and sig["load"] != {row["load"]}:
            probs.append("must load %d bits, loads %s" % (row["load"], sorted(map(str, sig["load"]))))
        if "store" in row and sig["store"] != {row["store"]}:
            probs.append("must store %d bits, stores %s" % (row["store"], sorted(map(str, sig["store"]))))
        if "nload" in row and sig["nload"] != row["nload"]:
            probs.append("must emit %d load(s), emits %d" % (row["nload"], sig["nload"]))
        if "nstore" in row and sig["nstore"] != row["nstore"]:
            probs.append("must emit %d store(s), emits %d" % (row["nstore"], sig["nstore"]))
        if not row.get("kinds", set()) <= sig["kinds"]:
            probs.append("must emit %s" % sorted(row["kinds"] - sig["kinds"]))
        if row.get("kindsn", set()) & sig["kinds"]:
            probs.append("must not emit %s" % sorted(row["kindsn"] & sig["kinds"]))
        if row.get("sext_all"):
            # every loaded temporary reaches its destination register through a sign extension
            for o in res.ops:
                if o.get("via") == "AArch64Register::set" and ilshape.is_il(o["src"]) and reads_temp(o["src"]) and not under_sext(o["src"]):
                    probs.append("a loaded value is written to its register without sign extension (line %s)" % o["line"])
                    break
        if row.get("target_reads_operand"):
            reads = set()
            for o in res.ops:
                for f in ("src", "addr", "target"):
                    if o.get(f) is not None:
                        c02.reg_reads(o[f], reads)
            if not any("operands()" in x for x in reads):
                probs.append("the transfer target must come from the instruction's register operand; no operand register is read")
        if not row.get("R", set()) <= sig["R"]:
            probs.append("must read %s" % sorted(row["R"] - sig["R"]))
        if "succ" in row:
            if len(res.succ) != row["succ"]:
                probs.append("must push %d successor(s), pushes %d" % (row["succ"], len(res.succ)))
            elif "taken_if_zero" in row:
                f = c05.formula(res.succ[0]["guard"])
                at = {}
                if f is not None:
                    c05.atoms_of(f, at)
                terms = [k for k in at if not isinstance(k, tuple)]
                if f is None or len(terms) != 1:
                    probs.append("taken guard is not a comparison of one value with zero: %s" % ilshape.show_e(res.succ[0]["guard"]))
                else:
                    taken0 = c05.evalf(f, {terms[0]: 0})
                    taken1 = c05.evalf(f, {terms[0]: "other"})
                    if taken0 != row["taken_if_zero"] or taken1 == taken0:
                        probs.append("branch is taken when the tested value is %s" % ("zero" if taken0 else "non-zero"))
        r.decide(not probs, "aarch64|%s" % i, db.where(db.hir[hs[0]]), "%s is lifted by %s: %s" % (i, last_seg(hs[0]), "; ".join(probs)),
                 detail={"handler": hs[0], "assigns": sorted(x for x in sig["W"] if isinstance(x, str)), "ops": sorted(sig["ops"])})
    r.floor(59, "dispatched mnemonics with reference rows")


def reads_temp(e):
    if not ilshape.is_il(e):
        return False
    sh_ = e[2]
    if sh_[0] == "scalar" and sh_[1] == "temp":
        return True
    return sh_[0] == "op" and any(reads_temp(a) for a in sh_[2])


def under_sext(e):
    """Every path from the root to a temp leaf passes a Sext."""
    if not ilshape.is_il(e):
        return True
    sh_ = e[2]
    if sh_[0] == "scalar":
        return sh_[1] != "temp"
    if sh_[0] == "op":
        if sh_[1] == "Sext":
            return True
        return all(under_sext(a) for a in sh_[2])
    return True


def r4(db, rep, hb, disp, runs):
    r = rep.rule("R4", "K4", "operand snapshot: within one instruction's IL no operand register (or x30) is read after another "
                 "operand register - which may be the same architectural register - has been written, except the reviewed "
                 "write-back-after-transfer read")
    rows = tables.const_table(db, "translator::aarch64::register::AARCH64_REGISTERS") or []
    names = frozenset(x["name"] for x in rows)
    cache = {}
    for full_id, arm in sorted(disp.by_id().items()):
        hs = arm["handlers"]
        if not hs or runs.get(hs[0]) is None:
            continue
        h = hs[0]
        if h not in cache:
            cache[h] = c02.hazards(runs[h], names)
        rev = lambda x: (full_id, last_seg(x[1]["fn"])) in HAZARD_OK or ("*", last_seg(x[1]["fn"])) in HAZARD_OK
        hz = [x for x in cache[h] if not rev(x)]
        reviewed = [x for x in cache[h] if rev(x)]
        key = "aarch64|%s" % full_id
        if not hz:
            r.ok(key, db.where(db.hir[h]), detail={"reviewed_reads": len(reviewed)} if reviewed else None)
            continue
        w, rd, wid, rid = hz[0]
        r.bad(key, db.where(db.hir.get(rd["fn"]) or db.hir[h], rd["line"]),
              "%s (lifted by %s) writes %s (in %s, line %s) and afterwards reads %s, which may be the same register" % (
                  full_id, last_seg(h), short(wid), last_seg(w["fn"]), w["line"], short(rid)))
    r.floor(59, "dispatched mnemonics")


def short(i):
    return i.replace("a64reg:param1.", "").replace("named:", "")


def r3b(db, rep):
    from mirterm import terms_of, subterms as tsub
    from db import mir_calls, mir_callee
    r = rep.rule("R3b", "K9", "TBZ/TBNZ test the bit the instruction names: the 6-bit bit number from the decoder reaches `1 << bit` "
                 "without being masked below 6 bits or narrowed")
    # the function that builds the single-bit mask `1 << bit` as an IL constant is found by that construction, not by name
    shl = []
    body = tm = None
    for fn in sorted(k for k in db.mir.keys() if k.startswith("translator::aarch64::semantics::") and "::tests" not in k):
        fb = db.mir[fn]
        if not any((mir_callee(t) or "") == "il::expr_const" for i, t in mir_calls(fb)):
            continue
        ftm = terms_of(db, fn, {})
        for i, t in mir_calls(fb):
            if (mir_callee(t) or "") == "il::expr_const":
                v = ftm.operand(t["args"][0])
                for x in tsub(v):
                    if isinstance(x, tuple) and len(x) == 4 and x[0] == "bin" and x[1] in ("Shl", "ShlUnchecked") and x[2] == ("const", 1):
                        shl.append((t, x[3]))
                        body, tm = fb, ftm
    rep.anchor(len(shl) == 1, "the one `1 << bit` IL constant of the AArch64 test-bit-and-branch lifting (found %d)" % len(shl))
    t, amt = shl[0]
    bad = None
    for x in tsub(amt):
        if isinstance(x, tuple) and len(x) == 4 and x[0] == "bin" and x[1] == "BitAnd":
            ks = [y[1] for y in (x[2], x[3]) if isinstance(y, tuple) and y[0] == "const" and isinstance(y[1], int)]
            if ks and min(ks) < 63:
                bad = "masked with %#x" % min(ks)
        if isinstance(x, tuple) and x and x[0] == "cast" and len(x) >= 4 and bits_of_ty(x[2]) and bits_of_ty(x[3]) and bits_of_ty(x[2]) < 8:
            bad = "narrowed to %s" % x[2]
        if isinstance(x, tuple) and len(x) == 4 and x[0] == "bin" and x[1] in ("Rem",):
            ks = [y[1] for y in (x[3],) if isinstance(y, tuple) and y[0] == "const" and isinstance(y[1], int)]
            if ks and ks[0] < 64:
                bad = "reduced modulo %d" % ks[0]
    from_dec = any(isinstance(x, tuple) and x and x[0] == "call" and str(x[1]).endswith("Instruction::operands") for x in tsub(amt))
    r.decide(bad is None and from_dec, "aarch64|TBZ|bit_index", db.where(body, t.get("l")),
             "the tested bit number is %s before it is used: bits 32..63 of an X register are tested as bit n-32" % (bad or "not the decoder's operand"))


def bits_of_ty(t):
    import re
    m = re.fullmatch(r"[iu](8|16|32|64|128)", t or "")
    return int(m.group(1)) if m else (64 if t in ("usize", "isize") else None)


def r9(db, rep, hb, disp):
    r = rep.rule("R9", "K1", "terminators: exactly the branch mnemonics (B, B.cond, BR, CBZ/CBNZ, TBZ/TBNZ, RET) end the lifted block; "
                 "every other dispatched mnemonic continues with the next instruction")
    for full_id, arm in sorted(disp.by_id().items()):
        if not arm["handlers"] and not any(last_seg(c) == "b_cc" for c in arm["callees"]):
            continue
        flags = [last_seg(n["res"].get("def", "")) for n in walk(arm["arm"].body)
                 if n.get("k") == "Path" and last_seg(n.get("res", {}).get("def", "") or "") in ("TERMINATING", "NON_TERMINATING")]
        if len(flags) != 1:
            r.open("aarch64|%s" % full_id, db.where(hb, arm["line"]), "no single TERMINATING / NON_TERMINATING marker")
            continue
        want = full_id in TERMINATING
        r.decide((flags[0] == "TERMINATING") == want, "aarch64|%s" % full_id, db.where(hb, arm["line"]),
                 "%s is marked %s" % (full_id, flags[0]))
    r.floor(60, "dispatched mnemonics")


def opof(e):
    return e[2][1] if ilshape.is_il(e) and e[2][0] == "op" else None


def argsof(e):
    return e[2][2] if ilshape.is_il(e) and e[2][0] == "op" else ()


def is_const(e, k):
    return ilshape.is_il(e) and e[2][0] == "const" and e[2][1] == k


def same(a, b):
    return ilshape.is_il(a) and ilshape.is_il(b) and a[2] == b[2]


def borrow_polarity(e):
    """+1: e is the unsigned borrow of a - b (1 iff a < b); -1: its complement (Arm's C after a subtraction);
    None: not one of the recognised algebraic forms."""
    op, a = opof(e), argsof(e)
    if op in ("Cmpeq", "Cmpneq") and len(a) == 2:
        for x, y in ((a[0], a[1]), (a[1], a[0])):
            if is_const(y, 0) or is_const(y, 1):
                p = borrow_polarity(x)
                if p is not None and ilshape.wnorm(x[1], {}) == 1:
                    flip = (op == "Cmpeq") == is_const(y, 0)
                    return -p if flip else p
            # zext(a - b) vs zext(a) - zext(b): they differ exactly when the subtraction borrows
            if opof(x) == "Zext" and opof(argsof(x)[0]) == "Sub" and opof(y) == "Sub":
                n1, n2 = argsof(argsof(x)[0])
                w1, w2 = argsof(y)
                if opof(w1) == "Zext" and opof(w2) == "Zext" and same(argsof(w1)[0], n1) and same(argsof(w2)[0], n2):
                    return 1 if op == "Cmpneq" else -1
    if op == "Cmpltu" and len(a) == 2:
        return ("ltu", a[0], a[1])
    return None


def r10(db, rep, runs):
    r = rep.rule("R10", "K9", "SUBS carry polarity: Arm's C after a subtraction is NOT borrow (AddWithCarry(x, NOT(y), 1)); B.HS/B.LO "
                 "read it that way (R2). The expression assigned to c in subs must be a recognised not-borrow form")
    h = "translator::aarch64::semantics::subs"
    res = runs.get(h)
    rep.anchor(res is not None, "semantics::subs")
    cs = [o for o in res.ops if o["kind"] == "Assign" and o.get("dst") == "c"]
    if len(cs) != 1:
        r.open("aarch64|SUBS|carry", db.where(db.hir[h]), "subs does not assign c exactly once")
        return
    e = cs[0]["src"]
    p = borrow_polarity(e)
    if isinstance(p, tuple):
        # a <u b over the operands of the Sub that produces the result
        p = None
    if p is None:
        r.open("aarch64|SUBS|carry", db.where(db.hir[h], cs[0]["line"]), "carry expression not recognised: %s" % ilshape.show_e(e))
    else:
        r.decide(p == -1, "aarch64|SUBS|carry", db.where(db.hir[h], cs[0]["line"]),
                 "subs sets c to the borrow (1 iff lhs <u rhs): %s; the architecture sets C = NOT borrow, and b_cc evaluates "
                 "HS/LO/HI/LS with the architectural meaning, so `cmp x0, x1; b.hs` is taken exactly when x0 <u x1" % ilshape.show_e(e))


def r11(db, rep):
    import bitprov
    r = rep.rule("R11", "K9", "no flag of ADDS/SUBS is a constant: for the 32-bit and the 64-bit register and immediate forms the term "
                 "assigned to each of n, z, c, v is evaluated in the bit-provenance domain (sums of zero-extended operands carry "
                 "into bit w, differences sign-extend their borrow); a flag whose bit is the constant 0 or 1 for an accepted form "
                 "is wrong (e.g. a carry taken from a fixed bit position above a 32-bit sum)")
    sh = ilshape.Shape(db)
    OP = "bad64::Operand::"
    NONE = "std::prelude::v1::None"
    for nm in ("adds", "subs"):
        f = "translator::aarch64::semantics::" + nm
        rep.anchor(f in db.hir, f)
        for W in (32, 64):
            for imm in (False, True):
                a = {}
                for k in (0, 1, 2):
                    pth = "param1.operands()[%d]" % k
                    if k == 2 and imm:
                        a[("obj", pth)] = OP + "Imm64"
                        a[("obj", pth + ".shift")] = NONE
                    else:
                        a[("obj", pth)] = OP + "Reg"
                        a[("obj", pth + ".arrspec")] = NONE
                        a[("bits", "a64reg:%s.reg" % pth)] = W
                res = sh.run(f, assume=a)
                bitprov.ASSUME = a
                const_flags = []
                seen = set()
                for o in res.ops:
                    if o["kind"] == "Assign" and o.get("dst") in FLAGS:
                        seen.add(o["dst"])
                        b = bitprov.bits(o["src"])
                        if b in ([0], [1]):
                            const_flags.append((o["dst"], b[0], o["line"]))
                bitprov.ASSUME = {}
                key = "aarch64|%s|%d|%s" % (nm.upper(), W, "imm" if imm else "reg")
                if seen != FLAGS:
                    r.open(key, db.where(db.hir[f]), "flag assignments not found for this form (%s)" % sorted(seen))
                    continue
                r.decide(not const_flags, key, db.where(db.hir[f], const_flags[0][2]) if const_flags else db.where(db.hir[f]),
                         "%s with %d-bit operands: flag %s is the constant %s" % (
                             nm, W, const_flags[0][0] if const_flags else "", const_flags[0][1] if const_flags else ""))


def run(db, rep, feat, tier):
    rep.explanation = (
        "Static rules over the HIR of lib/translator/aarch64/**. The register table is compared row by row with the class "
        "rules of the Arm ARM; AArch64Register::get/set are checked for the zero-register set and zero-extension. b_cc is "
        "interpreted abstractly (ilshape) under each condition literal the dispatch passes and the resulting successor "
        "guards are compared, as complete truth tables over N,Z,C,V, with ConditionHolds() written per mnemonic. Every "
        "handler is interpreted and its effect signature compared with the reference row of each mnemonic dispatched to "
        "it; the order of register writes and operand reads inside one instruction is checked (operand snapshot); width "
        "obligations, successor exclusivity, entry/exit, progress and the default arm reuse the C05 rules restricted to "
        "AArch64. Flag values, immediates and shift amounts are not decided.")
    runs = c05.shape_runs(db)
    hb, ms = lifters.insn_matches(db, "aarch64")
    rep.anchor(len(ms) >= 1, "aarch64 dispatch match")
    disp = ms[0]
    r1(db, rep)
    r2(db, rep, hb, disp)
    r3(db, rep, hb, disp, runs)
    r3b(db, rep)
    r4(db, rep, hb, disp, runs)
    sub = {k: v for k, v in runs.items() if "translator::aarch64::" in k}
    c05.r2(db, rep, sub, ("aarch64",), "R5")
    c05.r3(db, rep, sub, ("aarch64",), "R6")
    c05.r4(db, rep, ("aarch64",), "R7")
    c05.r5(db, rep, ("aarch64",), "R8a")
    c05.r6(db, rep, ("aarch64",), "R8b")
    r9(db, rep, hb, disp)
    r10(db, rep, runs)
    r11(db, rep)


MANIFEST = {
    "technique": "static analysis: table agreement, abstract interpretation of handlers (truth tables of branch conditions, effect signatures vs. Arm ARM reference rows, operand read-after-write ordering, widths)",
    "text": "Decides on every run: the register table equals the architectural classes (W/X/SP/ZR aliasing and widths); "
            "get/set implement the zero register and 32-bit zero-extension; each B.cond is taken exactly when "
            "ConditionHolds() of its mnemonic holds, for all 16 NZCV valuations, with the complementary fall-through; each "
            "dispatched mnemonic's handler has the architectural effect signature (flag writers, access widths/counts/"
            "extension, link writers, indirect transfers, CBZ/TBZ polarity); no operand register is read after another "
            "was written except reviewed write-back; no definite width error; successors are mutually exclusive and "
            "exhaustive; handlers set entry/exit; terminators are exactly the branches; SUBS carry polarity; no flag of "
            "ADDS/SUBS is a constant for the 32/64-bit register and immediate forms (bit provenance). It does not decide "
            "flag values beyond that, immediates or shift amounts.",
    "note": "Trusted: rustc nightly HIR; ilshape transfer functions (register get/set modelled from the table, checked "
            "against get/set by R1); the reference rows transcribed from the Arm ARM keyed by bad64 enumerators. Known: SUBS "
            "sets C as borrow (pinned by the suite's subs_xn test), pinned by the suite.",
}
