"""C06 — function recovery (Translator::translate_function_extended, ControlFlowGraph::merge).

Decided (structural necessary conditions): the work list is closed — the function address, both ends of every manual edge
and every successor of every lifted block are enqueued, and every dequeued address gets a translation result or the
function returns an error (R1); every map lookup by address uses a key from that closed set (R2); an instruction graph
is inserted only when its address is new, and reused otherwise (R3); consecutive instructions of a block are stitched
whether or not the instruction was freshly inserted (R4); the entry is the block of the function address (R5); the
translation window has a constant lower bound that fits the longest instruction / branch+delay slot (R6); merge never
merges the entry block away nor rewrites the entry, and moves the exit when it absorbs it (R7); each block translator
advances and pushes a fall-through successor at the window end (R8).
Not decided: that executions of the recovered graph coincide with sequential execution (a behavioural equivalence over
all programs); duplicate-edge suppression when two successors share an address.
"""
from armlib import last_seg
from db import Cfg, mir_callee, mir_calls
from mirterm import show, subterms, terms_of
import lifters
import props.c05 as c05

TFE = "translator::Translator::translate_function_extended"
MERGE = "il::control_flow_graph::ControlFlowGraph::merge"
CFGT = "il::control_flow_graph::ControlFlowGraph"
MIN_WINDOW = 16      # longest x86 instruction is 15 bytes; MIPS branch + delay slot is 8


def calls(body, suffix):
    return [(i, t) for i, t in mir_calls(body) if (mir_callee(t) or "").endswith(suffix)]


def txt(tm, operand):
    try:
        return show(tm.operand(operand))
    except Exception:
        return "?"


def local_of(body, name):
    for nm, pl in body.get("names", []):
        if nm == name and len(pl) == 1:
            return pl[0]
    return None


def uses(t, pred):
    """Does the term mention a call whose callee satisfies pred / a parameter satisfying pred?"""
    for x in subterms(t):
        if isinstance(x, tuple) and x:
            if x[0] == "call" and pred(("call", x[1])):
                return True
            if x[0] == "param" and pred(("param", x[1])):
                return True
    return False


def from_call(t, suffix):
    return uses(t, lambda k: k[0] == "call" and k[1].endswith(suffix))


def bounds(t):
    """Integer interval of a MIR term: (lo, hi); hi None = unbounded."""
    if not isinstance(t, tuple):
        return (0, None)
    if t[0] == "const" and isinstance(t[1], int):
        return (t[1], t[1])
    if t[0] == "cast":
        return bounds(t[-1])
    if t[0] == "bin" and len(t) >= 4:
        op, a, b = t[1], bounds(t[2]), bounds(t[3])
        if op in ("Rem",) and b[0] == b[1] and b[0]:
            return (0, b[0] - 1)
        if op in ("Sub", "SubWithOverflow", "SubUnchecked"):
            return (a[0] - b[1] if b[1] is not None else 0, a[1] - b[0] if a[1] is not None else None)
        if op in ("Add", "AddWithOverflow", "AddUnchecked"):
            return (a[0] + b[0], a[1] + b[1] if a[1] is not None and b[1] is not None else None)
        if op in ("BitAnd",) and b[0] == b[1]:
            return (0, b[0])
    if t[0] == "field" and len(t) >= 3:      # (value, overflow) tuple of a checked operation
        return bounds(t[-1])
    return (0, None)


def run(db, rep, feat, tier):
    rep.explanation = (
        "Static rules over the MIR (control-flow graph, dominators, def-use terms) of Translator::translate_function_extended "
        "and ControlFlowGraph::merge: must-pass-through and reachability queries for the work list, the per-address "
        "instruction sharing and the stitching edges; provenance of every map key; interval bounds of the window length; "
        "field-write and must-pass-through rules for merge. The block translators' window handling reuses the C05 "
        "progress rule and the C02 delay-slot look-ahead rule. The behavioural equivalence with sequential execution is "
        "not decided.")
    body = db.mir.get(TFE)
    rep.anchor(body is not None, TFE)
    rep.analysed(TFE)
    cfg = Cfg(body)
    tm = terms_of(db, TFE, {})
    where = lambda i: db.where(body, body["blocks"][i]["t"].get("l"))

    fa = local_of(body, "function_address")
    maps = {nm: tm.local(local_of(body, nm)) for nm in ("translation_results", "instruction_indices", "block_indices", "translation_queue")
            if local_of(body, nm) is not None}
    rep.anchor(fa is not None and len(maps) == 4, "locals function_address, translation_results, instruction_indices, block_indices, translation_queue")
    is_fa = lambda t: uses(t, lambda k: k == ("param", fa))
    recv = lambda t, nm: tm.operand(t["args"][0]) == maps[nm]

    # ---------------------------------------------------------------- R1 work list
    r = rep.rule("R1", "K6", "work-list closure: the function address, both ends of every manual edge and every successor of every "
                 "lifted block are enqueued; every dequeued address that is not already translated reaches an insertion into the "
                 "result map before the loop head is reached again (or the function returns an error)")
    pf = calls(body, "VecDeque::<T, A>::push_front")
    ok = len(pf) == 1 and is_fa(tm.operand(pf[0][1]["args"][1]))
    r.decide(ok, "enqueue|function_address", where(pf[0][0]) if pf else db.where(body), "the function address must be enqueued first")
    pushed = set()
    for c in db.closures_of(TFE):
        cb = db.mir.get(c)
        if cb is None:
            continue
        ctm = terms_of(db, c, {})
        for i, t in calls(cb, "VecDeque::<T, A>::push_back"):
            a = ctm.operand(t["args"][1])
            for end in ("head_address", "tail_address"):
                if from_call(a, "ManualEdge::" + end):
                    pushed.add(end)
    r.decide(pushed == {"head_address", "tail_address"}, "enqueue|manual_edges", db.where(body),
             "both ends of every manual edge must be enqueued (found %s)" % sorted(pushed))
    pops = calls(body, "VecDeque::<T, A>::pop_front")
    heads = calls(body, "VecDeque::<T, A>::is_empty")
    gets = calls(body, "TranslationMemory::get_bytes")
    rep.anchor(len(pops) == 1 and len(heads) >= 1 and len(gets) == 1, "work-list loop: pop_front, is_empty, get_bytes")
    head = heads[0][0]
    results_inserts = [i for i, t in calls(body, "BTreeMap::<K, V, A>::insert") if recv(t, "translation_results")]
    reach = cfg.reachable(gets[0][0], avoid=results_inserts)
    r.decide(len(results_inserts) >= 2 and head not in reach, "dequeued_gets_result", where(gets[0][0]),
             "a dequeued address can reach the loop head again without a translation result being recorded")
    key_ok = all(from_call(tm.operand(body["blocks"][i]["t"]["args"][1]), "pop_front") for i in results_inserts)
    r.decide(key_ok, "result_keyed_by_dequeued_address", where(results_inserts[0]) if results_inserts else db.where(body),
             "a translation result must be recorded under the dequeued address")
    # successors enqueued
    pbs = calls(body, "VecDeque::<T, A>::push_back")
    contains = calls(body, "VecDeque::<T, A>::contains")
    nexts = [(i, t) for i, t in calls(body, "Iterator>::next") if from_call(tm.operand(t["args"][0]), "BlockTranslationResult::successors")]
    rep.anchor(len(pbs) == 1 and len(contains) == 1 and len(nexts) >= 2, "successor loop: next, contains, push_back")
    first_next = min(i for i, _ in nexts)
    reach = set()
    for s_ in cfg.succ[first_next]:
        reach |= cfg.reachable(s_, avoid=[pbs[0][0], contains[0][0]] + results_inserts)
    arg = tm.operand(pbs[0][1]["args"][1])
    r.decide(first_next not in reach and from_call(arg, "BlockTranslationResult::successors"), "enqueue|successors", where(pbs[0][0]),
             "a successor of a lifted block can be skipped without being enqueued (the only permitted skip is `already queued`)")

    # ---------------------------------------------------------------- R2 keys
    r = rep.rule("R2", "K8", "every map lookup by address (`map[&key]`) uses a key from the closed set: the function address, a manual "
                 "edge end, a successor address, a key of the result map, or an instruction address known to be occupied")
    idx = calls(body, "ops::Index<&Q>>::index")

    def origin(t):
        if is_fa(t) and not calls_in_any(t):
            return "the function address (enqueued first)"
        if from_call(t, "ManualEdge::head_address") or from_call(t, "ManualEdge::tail_address"):
            return "a manual edge end (enqueued)"
        if from_call(t, "BlockTranslationResult::successors"):
            return "a successor address (enqueued)"
        if from_call(t, "BlockTranslationResult::instructions"):
            return "an instruction address (Occupied arm)"
        if from_call(t, "IntoIterator>::into_iter") and uses(t, lambda k: k[0] == "call" and k[1].endswith("Iterator>::next")):
            return "a key of the result map"
        return None

    for n, (i, t) in enumerate(idx):
        k = tm.operand(t["args"][1])
        why = origin(k)
        r.decide(why is not None, "index|%d" % n, where(i), "map indexed by a key of unknown origin: %s" % show(k)[:160], detail={"origin": why})
    r.floor(6, "map lookups")

    # ---------------------------------------------------------------- R3 once-insertion
    r = rep.rule("R3", "K6", "per-address sharing: an instruction graph is inserted only in the Vacant arm of the per-address map, its "
                 "indices are recorded there, and the Occupied arm reuses the recorded indices")
    ins = calls(body, CFGT + "::insert")
    ent = calls(body, "BTreeMap::<K, V, A>::entry")
    vac = calls(body, "VacantEntry::<'a, K, V, A>::insert")
    rep.anchor(len(ent) == 1, "instruction_indices.entry(address)")
    ok = len(ins) == 1 and len(vac) == 1 and cfg.dominates(ent[0][0], ins[0][0]) and cfg.dominates(ins[0][0], vac[0][0])
    r.decide(ok, "insert_once", where(ins[0][0]) if ins else db.where(body),
             "ControlFlowGraph::insert must be called once, after the Vacant test, and be followed by recording the indices")
    occ = [(i, t) for i, t in idx if recv(t, "instruction_indices")]
    ok = len(occ) == 1 and cfg.dominates(ent[0][0], occ[0][0]) and not cfg.dominates(ins[0][0], occ[0][0]) if ins else False
    r.decide(ok, "reuse_when_present", where(occ[0][0]) if occ else db.where(body), "the Occupied arm must reuse the recorded indices")

    # ---------------------------------------------------------------- R4 stitching
    r = rep.rule("R4", "K6", "stitching: from both the Vacant and the Occupied arm an edge test / edge creation between the previous "
                 "instruction's exit and this instruction's entry is reachable before the next instruction is fetched")
    inner_next = [i for i, t in calls(body, "Iterator>::next") if from_call(tm.operand(t["args"][0]), "BlockTranslationResult::instructions")]
    rep.anchor(len(inner_next) == 1, "instruction loop")
    pe = local_of(body, "previous_exit")
    pet = tm.local(pe) if pe is not None else None
    edge_calls = [i for i, t in mir_calls(body) if (mir_callee(t) or "") in (CFGT + "::edge", CFGT + "::unconditional_edge")
                  and pet is not None and any(x == pet for x in subterms(tm.operand(t["args"][1])))]
    for nm, start in (("vacant", vac[0][0] if vac else None), ("occupied", occ[0][0] if occ else None)):
        if start is None:
            r.bad("stitch|%s" % nm, db.where(body), "arm not found")
            continue
        reach = cfg.reachable(start, avoid=inner_next)
        r.decide(any(e in reach for e in edge_calls), "stitch|%s" % nm, where(start),
                 "after the %s arm no edge from the previous instruction is tested or created before the next instruction: an "
                 "instruction shared with an overlapping block is left unconnected" % nm)

    # ---------------------------------------------------------------- R5 entry
    r = rep.rule("R5", "K7", "the graph's entry is the entry vertex of the block lifted at the function address")
    se = calls(body, CFGT + "::set_entry")
    last = max(se, key=lambda x: x[1].get("l", 0)) if se else None
    a = tm.operand(last[1]["args"][1]) if last else None
    ok = bool(last) and isinstance(a, tuple) and a[0] == "field" and a[2] == ".0" and is_fa(a) and any(x == maps["block_indices"] for x in subterms(a))
    r.decide(ok, "entry", where(last[0]) if last else db.where(body),
             "set_entry must receive block_indices[&function_address].0; it receives %s" % (show(a)[:160] if a else None))

    # ---------------------------------------------------------------- R6 window
    r = rep.rule("R6", "K9", "translation window: the length requested from memory has a constant lower bound of at least %d bytes "
                 "(the longest x86 instruction is 15 bytes, a MIPS branch with its delay slot 8), independent of the address" % MIN_WINDOW)
    t = tm.operand(gets[0][1]["args"][2])
    lo, hi = bounds(resolve_const(db, t))
    r.decide(lo >= MIN_WINDOW, "window_length", where(gets[0][0]),
             "the window length %s can be as small as %s bytes: an instruction that does not fit fails to decode" % (show(t)[:120], lo))

    # ---------------------------------------------------------------- R7 merge
    mb = db.mir.get(MERGE)
    rep.anchor(mb is not None, MERGE)
    rep.analysed(MERGE)
    mcfg = Cfg(mb)
    adt = db.adt(CFGT)
    fields = [f["name"] for f in adt["variants"][0]["fields"]]
    ei, xi = ".%d" % fields.index("entry"), ".%d" % fields.index("exit")
    r = rep.rule("R7", "K5", "merge keeps the entry: it never assigns the entry field, no block is scheduled for merging before the "
                 "successor was compared with the entry, and when the absorbed block was the exit the exit moves to the absorber")
    writes = [(i, s_) for i, b in enumerate(mb["blocks"]) for s_ in b["s"] if len(s_["d"]) >= 3 and s_["d"][0] == 1 and s_["d"][-1] in (ei, xi)]
    ew = [w for w in writes if w[1]["d"][-1] == ei]
    xw = [w for w in writes if w[1]["d"][-1] == xi]
    r.decide(not ew, "entry_not_written", db.where(mb, ew[0][1]["l"]) if ew else db.where(mb),
             "merge assigns the entry: the block at the function address can be absorbed by a predecessor and execution starts elsewhere")
    r.decide(len(xw) == 1, "exit_follows_absorber", db.where(mb), "merge must move the exit to the absorbing block exactly once")
    ecalls = calls(mb, CFGT + "::entry")
    pushes = calls(mb, "Vec::<T, A>::push")
    mpush = [i for i, t in pushes]
    ok = bool(ecalls) and bool(mpush) and all(p not in mcfg.reachable(0, avoid=[e for e, _ in ecalls]) for p in mpush[:1])
    r.decide(ok, "entry_compared", db.where(mb, ecalls[0][1]["l"]) if ecalls else db.where(mb),
             "a merge can be scheduled without the successor having been compared with the entry vertex")
    cmp_ok = False
    for c in db.closures_of(MERGE):
        cbody = db.mir.get(c)
        if cbody is None:
            continue
        for b in cbody["blocks"]:
            for s_ in b["s"]:
                if s_.get("rv", {}).get("k") == "BinaryOp" and s_["rv"].get("op") == "Eq":
                    cmp_ok = True
    r.decide(cmp_ok, "entry_equality", db.where(mb), "the entry comparison must be an equality with the successor")

    # ---------------------------------------------------------------- R8 window end in the block translators
    c05.r5(db, rep, c05.ARCHES, "R8")
    r = rep.rule("R8b", "K6", "window end: each block translator pushes an unguarded fall-through successor when it stops because the "
                 "window is exhausted")
    for arch in c05.ARCHES:
        fn = lifters.TB[arch]
        b = db.mir[fn]
        btm = terms_of(db, fn, {})
        sl, al = local_of(b, "successors"), local_of(b, "address")
        rep.anchor(sl is not None and al is not None, "%s: locals successors, address" % fn)
        st = btm.local(sl)
        found = False
        for i, t in mir_calls(b):
            if not (mir_callee(t) or "").endswith("Vec::<T, A>::push") or btm.operand(t["args"][0]) != st:
                continue
            a = btm.operand(t["args"][1])
            if isinstance(a, tuple) and a[0] == "tuple" and len(a[1]) == 2 and isinstance(a[1][1], tuple) and a[1][1][0] == "agg" \
                    and a[1][1][1].endswith("None"):
                addr = a[1][0]
                adds = [x for x in subterms(addr) if isinstance(x, tuple) and x and x[0] == "bin" and x[1].startswith("Add")]
                if any(("param", al) in (x[2], x[3]) for x in adds):
                    found = True
        r.decide(found, "%s|fallthrough_successor" % arch, db.where(b),
                 "%s translate_block never pushes the unguarded successor (address + offset, None)" % arch)


def calls_in_any(t):
    return any(isinstance(x, tuple) and x and x[0] == "call" for x in subterms(t))


def resolve_const(db, t):
    """Replace named constants of the crate by their literal value where the item table records one."""
    if not isinstance(t, tuple) or not t:
        return t
    if t[0] == "constv" and len(t) > 1 and isinstance(t[1], str):
        h = db.hir.get(t[1])
        if h is not None and h.get("body", {}).get("k") == "Lit" and isinstance(h["body"]["v"].get("int"), int):
            return ("const", h["body"]["v"]["int"])
    return tuple(resolve_const(db, x) if isinstance(x, tuple) else x for x in t)


MANIFEST = {
    "technique": "static analysis: MIR control-flow rules (must-pass-through, reachability, dominators), def-use provenance of map keys, interval bounds, field-write rules",
    "text": "Decides on every run structural necessary conditions of correct function recovery: the work list is closed under "
            "successors and manual edges and every dequeued address is recorded; every address-keyed lookup uses a key from "
            "that set; an instruction is inserted once per address and reused otherwise; stitching edges are created on both "
            "the fresh and the shared path; the entry is the function address's block; the window length has a constant "
            "lower bound >= 16 bytes; merge never rewrites or absorbs the entry and moves the exit; block translators "
            "advance and emit the fall-through successor at the window end. It does not decide the behavioural equivalence "
            "with sequential execution, nor duplicate-edge suppression when two successors share one address.",
    "note": "Trusted: rustc nightly MIR at mir-opt-level 0; the def-use term builder (fv/mirterm.py).",
}
