"""C06 — function recovery (Translator::translate_function_extended, ControlFlowGraph::merge).

Decided (structural necessary conditions): the work list is closed — the function address, both ends of every manual edge
and every successor of every lifted block are enqueued, and every dequeued address gets a translation result or the
function returns an error (R1); every map lookup by address uses a key from that closed set (R2); an instruction graph
is inserted only when its address is new, and reused otherwise (R3); consecutive instructions of a block are stitched
whether or not the instruction was freshly inserted (R4); the entry is the block of the function address (R5); the
translation window has a constant lower bound that fits the longest instruction / branch+delay slot (R6); merge never
merges the entry block away nor rewrites the entry, and moves the exit when it absorbs it (R7); each block translator
advances and pushes a fall-through successor at the window end (R8).
Not decided: that executions of the recovered graph coincide with sequential execution (a behavioural equivalence over
all programs); duplicate-edge suppression when two successors share an address.
"""
from armlib import last_seg
from db import Cfg, mir_callee, mir_calls
from mirterm import show, subterms, terms_of
import lifters
import props.c05 as c05

TFE = "translator::Translator::translate_function_extended"
MERGE = "il::control_flow_graph::ControlFlowGraph::merge"
CFGT = "il::control_flow_graph::ControlFlowGraph"
MIN_WINDOW = 16      # longest x86 instruction is 15 bytes; MIPS branch + delay slot is 8


def calls(body, suffix):
    return [(i, t) for i, t in mir_calls(body) if (mir_callee(t) or "").endswith(suffix)]


def txt(tm, operand):
    try:
        return show(tm.operand(operand))
    except Exception:
        return "?"


def local_of(body, name):
    for nm, pl in body.get("names", []):
        if nm == name and len(pl) == 1:
            return pl[0]
    return None


def uses(t, pred):
    """Does the term mention a call whose callee satisfies pred / a parameter satisfying pred?"""
    for x in subterms(t):
        if isinstance(x, tuple) and x:
            if x[0] == "call" and pred(("call", x[1])):
                return True
            if x[0] == "param" and pred(("param", x[1])):
                return True
    return False


def from_call(t, suffix):
    return uses(t, lambda k: k[0] == "call" and k[1].endswith(suffix))


def bounds(t):
    """Integer interval of a MIR term: (lo, hi); hi None = unbounded."""
    if not isinstance(t, tuple):
        return (0, None)
    if t[0] == "const" and isinstance(t[1], int):
        return (t[1], t[1])
    if t[0] == "cast":
        return bounds(t[-1])
    if t[0] == "bin" and len(t) >= 4:
        op, a, b = t[1], bounds(t[2]), bounds(t[3])
        if op in ("Rem",) and b[0] == b[1] and b[0]:
            return (0, b[0] - 1)
        if op in ("Sub", "SubWithOverflow", "SubUnchecked"):
            return (a[0] - b[1] if b[1] is not None else 0, a[1] - b[0] if a[1] is not None else None)
        if op in ("Add", "AddWithOverflow", "AddUnchecked"):
            return (a[0] + b[0], a[1] + b[1] if a[1] is not None and b[1] is not None else None)
        if op in ("BitAnd",) and b[0] == b[1]:
            return (0, b[0])
    if t[0] == "field" and len(t) >= 3:      # (value, overflow) tuple of a checked operation
        return bounds(t[-1])
    return (0, None)


def run(db, rep, feat, tier):
    rep.explanation = (
        "Static rules over the MIR (control-flow graph, dominators, def-use terms) of Translator::translate_function_extended "
        "and ControlFlowGraph::merge: must-pass-through and reachability queries for the work list, the per-address "
        "instruction sharing and the stitching edges; provenance of every map key; interval bounds of the window length; "
        "field-write and must-pass-through rules for merge. The block translators' window handling reuses the C05 "
        "progress rule and the C02 delay-slot look-ahead rule. The behavioural equivalence with sequential execution is "
        "not decided.")
    body = db.mir.get(TFE)
    rep.anchor(body is not None, TFE)
    rep.analysed(TFE)
    cfg = Cfg(body)
    tm = terms_of(db, TFE, {})
    where = lambda i: db.where(body, body["blocks"][i]["t"].get("l"))

    # the objects of the function are identified by how they are used, not by their names:
    #   function address = the u64 parameter (self, memory, address, options); work list = receiver of pop_front;
    #   result map = receiver of contains_key; per-address map = receiver of BTreeMap::entry; per-block map = the other map
    #   that receives (usize, usize) pairs
    u64_params = [i for i in range(1, body["argc"] + 1) if body["types"][body["locals"][i]] == "u64"]
    fa = u64_params[0] if len(u64_params) == 1 else local_of(body, "function_address")
    maps = {}
    for i, t in mir_calls(body):
        c = mir_callee(t) or ""
        if c.endswith("VecDeque::<T, A>::pop_front"):
            maps["translation_queue"] = tm.operand(t["args"][0])
        elif c.endswith("BTreeMap::<K, V, A>::contains_key"):
            maps["translation_results"] = tm.operand(t["args"][0])
        elif c.endswith("BTreeMap::<K, V, A>::entry"):
            maps["instruction_indices"] = tm.operand(t["args"][0])
    for i, t in mir_calls(body):
        # the per-block map: the address-keyed map that is neither the result map nor the per-address map (its values are the
        # (entry, exit) vertex pair of a block, as a tuple or as a small struct)
        if (mir_callee(t) or "").endswith("BTreeMap::<K, V, A>::insert") and "BTreeMap::<u64," in (t.get("fg") or "") and \
                tm.operand(t["args"][0]) not in (maps.get("instruction_indices"), maps.get("translation_results")):
            maps["block_indices"] = tm.operand(t["args"][0])
    rep.anchor(fa is not None and len(maps) == 4, "function address parameter, work list, result map, per-address map, per-block map")
    is_fa = lambda t: uses(t, lambda k: k == ("param", fa))
    recv = lambda t, nm: tm.operand(t["args"][0]) == maps[nm]

    # ---------------------------------------------------------------- R1 work list
    r = rep.rule("R1", "K6", "work-list closure: the function address, both ends of every manual edge and every successor of every "
                 "lifted block are enqueued; every dequeued address that is not already translated reaches an insertion into the "
                 "result map before the loop head is reached again (or the function returns an error)")
    pf = calls(body, "VecDeque::<T, A>::push_front")
    ok = len(pf) == 1 and is_fa(tm.operand(pf[0][1]["args"][1]))
    r.decide(ok, "enqueue|function_address", where(pf[0][0]) if pf else db.where(body), "the function address must be enqueued first")
    pushed = set()
    # the manual-edge ends are enqueued in a closure (for_each) or in a plain loop of the function itself
    for c in [TFE] + list(db.closures_of(TFE)):
        cb = db.mir.get(c)
        if cb is None:
            continue
        ctm = tm if c == TFE else terms_of(db, c, {})
        for i, t in calls(cb, "VecDeque::<T, A>::push_back"):
            a = ctm.operand(t["args"][1])
            for end in ("head_address", "tail_address"):
                if from_call(a, "ManualEdge::" + end):
                    pushed.add(end)
    r.decide(pushed == {"head_address", "tail_address"}, "enqueue|manual_edges", db.where(body),
             "both ends of every manual edge must be enqueued (found %s)" % sorted(pushed))
    pops = calls(body, "VecDeque::<T, A>::pop_front")
    heads = calls(body, "VecDeque::<T, A>::is_empty")
    gets = calls(body, "TranslationMemory::get_bytes")
    rep.anchor(len(pops) == 1 and len(gets) == 1, "work-list loop: pop_front, get_bytes")
    # the loop head: the emptiness test when there is one, otherwise the dequeue itself (`while let Some(a) = q.pop_front()`)
    head = heads[0][0] if heads else pops[0][0]
    rep.anchor(head in cfg.reachable(gets[0][0]), "the work-list loop closes (the loop head is reachable from the fetch)")
    results_inserts = [i for i, t in calls(body, "BTreeMap::<K, V, A>::insert") if recv(t, "translation_results")]
    reach = cfg.reachable(gets[0][0], avoid=results_inserts)
    r.decide(len(results_inserts) >= 2 and head not in reach, "dequeued_gets_result", where(gets[0][0]),
             "a dequeued address can reach the loop head again without a translation result being recorded")
    key_ok = all(from_call(tm.operand(body["blocks"][i]["t"]["args"][1]), "pop_front") for i in results_inserts)
    r.decide(key_ok, "result_keyed_by_dequeued_address", where(results_inserts[0]) if results_inserts else db.where(body),
             "a translation result must be recorded under the dequeued address")
    # successors enqueued
    pbs = [(i, t) for i, t in calls(body, "VecDeque::<T, A>::push_back") if not from_call(tm.operand(t["args"][1]), "ManualEdge::head_address")
           and not from_call(tm.operand(t["args"][1]), "ManualEdge::tail_address")]
    contains = calls(body, "VecDeque::<T, A>::contains")
    nexts = [(i, t) for i, t in calls(body, "Iterator>::next") if from_call(tm.operand(t["args"][0]), "BlockTranslationResult::successors")]
    rep.anchor(len(pbs) == 1 and len(contains) == 1 and len(nexts) >= 2, "successor loop: next, contains, push_back")
    first_next = min(i for i, _ in nexts)
    reach = set()
    for s_ in cfg.succ[first_next]:
        reach |= cfg.reachable(s_, avoid=[pbs[0][0], contains[0][0]] + results_inserts)
    arg = tm.operand(pbs[0][1]["args"][1])
    r.decide(first_next not in reach and from_call(arg, "BlockTranslationResult::successors"), "enqueue|successors", where(pbs[0][0]),
             "a successor of a lifted block can be skipped without being enqueued (the only permitted skip is `already queued`)")

    # ---------------------------------------------------------------- R2 keys
    r = rep.rule("R2", "K8", "every map lookup by address (`map[&key]`) uses a key from the closed set: the function address, a manual "
                 "edge end, a successor address, a key of the result map, or an instruction address known to be occupied")
    idx = calls(body, "ops::Index<&Q>>::index")

    def origin(t):
        if is_fa(t) and not calls_in_any(t):
            return "the function address (enqueued first)"
        if from_call(t, "ManualEdge::head_address") or from_call(t, "ManualEdge::tail_address"):
            return "a manual edge end (enqueued)"
        if from_call(t, "BlockTranslationResult::successors"):
            return "a successor address (enqueued)"
        if from_call(t, "BlockTranslationResult::instructions"):
            return "an instruction address (Occupied arm)"
        if from_call(t, "IntoIterator>::into_iter") and uses(t, lambda k: k[0] == "call" and k[1].endswith("Iterator>::next")):
            return "a key of the result map"
        return None

    for n, (i, t) in enumerate(idx):
        k = tm.operand(t["args"][1])
        why = origin(k)
        r.decide(why is not None, "index|%d" % n, where(i), "map indexed by a key of unknown origin: %s" % show(k)[:160], detail={"origin": why})
    r.floor(4, "map lookups")      # 6 on the pinned tree; the entry lookup, both manual-edge ends and the successor end are the minimum

    # ---------------------------------------------------------------- R3 once-insertion
    r = rep.rule("R3", "K6", "per-address sharing: an instruction graph is inserted only in the Vacant arm of the per-address map, its "
                 "indices are recorded there, and the Occupied arm reuses the recorded indices")
    ins = calls(body, CFGT + "::insert")
    ent = calls(body, "BTreeMap::<K, V, A>::entry")
    vac = calls(body, "VacantEntry::<'a, K, V, A>::insert")
    rep.anchor(len(ent) == 1, "instruction_indices.entry(address)")
    ok = len(ins) == 1 and len(vac) == 1 and cfg.dominates(ent[0][0], ins[0][0]) and cfg.dominates(ins[0][0], vac[0][0])
    r.decide(ok, "insert_once", where(ins[0][0]) if ins else db.where(body),
             "ControlFlowGraph::insert must be called once, after the Vacant test, and be followed by recording the indices")
    # the recorded indices are read back by indexing the per-address map or through the occupied entry itself
    occ = [(i, t) for i, t in idx if recv(t, "instruction_indices")] + \
        [(i, t) for i, t in mir_calls(body) if "OccupiedEntry" in (mir_callee(t) or "") and last_seg(mir_callee(t)) in ("get", "get_mut", "into_mut")]
    ok = len(occ) == 1 and cfg.dominates(ent[0][0], occ[0][0]) and not cfg.dominates(ins[0][0], occ[0][0]) if ins else False
    r.decide(ok, "reuse_when_present", where(occ[0][0]) if occ else db.where(body), "the Occupied arm must reuse the recorded indices")

    # ---------------------------------------------------------------- R4 stitching
    r = rep.rule("R4", "K6", "stitching: from both the Vacant and the Occupied arm an edge test / edge creation between the previous "
                 "instruction's exit and this instruction's entry is reachable before the next instruction is fetched")
    inner_next = [i for i, t in calls(body, "Iterator>::next") if from_call(tm.operand(t["args"][0]), "BlockTranslationResult::instructions")]
    rep.anchor(len(inner_next) == 1, "instruction loop")
    # stitching edges are the edge calls whose endpoints are not taken from the per-block map (those are inter-block edges, R9)
    bi_ = maps["block_indices"]
    is_bi = lambda a: any(isinstance(x, tuple) and x and x[0] == "call" and str(x[1]).endswith("ops::Index<&Q>>::index") and x[2] and x[2][0] == bi_
                          for x in subterms(a))
    edge_calls = [i for i, lab, h_, t_ in edge_sites(db, body, tm) if lab != "conditional_edge" and not is_bi(h_) and not is_bi(t_)]
    for nm, start in (("vacant", vac[0][0] if vac else None), ("occupied", occ[0][0] if occ else None)):
        if start is None:
            r.bad("stitch|%s" % nm, db.where(body), "arm not found")
            continue
        reach = cfg.reachable(start, avoid=inner_next)
        r.decide(any(e in reach for e in edge_calls), "stitch|%s" % nm, where(start),
                 "after the %s arm no edge from the previous instruction is tested or created before the next instruction: an "
                 "instruction shared with an overlapping block is left unconnected" % nm)

    # ---------------------------------------------------------------- R5 entry
    r = rep.rule("R5", "K7", "the graph's entry is the entry vertex of the block lifted at the function address")
    se = calls(body, CFGT + "::set_entry")
    last = max(se, key=lambda x: x[1].get("l", 0)) if se else None
    a = tm.operand(last[1]["args"][1]) if last else None
    ok = bool(last) and isinstance(a, tuple) and a[0] == "field" and a[2] == ".0" and is_fa(a) and any(x == maps["block_indices"] for x in subterms(a))
    r.decide(ok, "entry", where(last[0]) if last else db.where(body),
             "set_entry must receive block_indices[&function_address].0; it receives %s" % (show(a)[:160] if a else None))

    # ---------------------------------------------------------------- R6 window
    r = rep.rule("R6", "K9", "translation window: the length requested from memory has a constant lower bound of at least %d bytes "
                 "(the longest x86 instruction is 15 bytes, a MIPS branch with its delay slot 8), independent of the address" % MIN_WINDOW)
    t = tm.operand(gets[0][1]["args"][2])
    lo, hi = bounds(resolve_const(db, t))
    r.decide(lo >= MIN_WINDOW, "window_length", where(gets[0][0]),
             "the window length %s can be as small as %s bytes: an instruction that does not fit fails to decode" % (show(t)[:120], lo))

    merge_rules(db, rep, "R7")

    # ---------------------------------------------------------------- R9 edge endpoints
    r = rep.rule("R9", "K5", "edge endpoints: every edge between lifted blocks (manual edges and successor edges, and the duplicate test that "
                 "precedes them) leaves the exit vertex of its head block and enters the entry vertex of its tail block; the pair "
                 "recorded per block is (entry of its first instruction, exit of its last)")
    bi = maps["block_indices"]

    def proj(t):
        """('.0' | '.1', key term) if t is a component of a block_indices lookup."""
        if isinstance(t, tuple) and t[0] == "field" and isinstance(t[1], tuple) and t[1][0] == "call" and t[1][1].endswith("ops::Index<&Q>>::index") \
                and t[1][2] and t[1][2][0] == bi:
            return t[2]
        return None

    n = 0
    for i, lab, ht, tt in edge_sites(db, body, tm):
        h, tl = proj(ht), proj(tt)
        if h is None and tl is None:
            continue       # stitching inside a block: R4
        n += 1
        r.decide(h == ".1" and tl == ".0", "endpoints|%s|%d" % (lab, n), where(i),
                 "%s is called with head component %s and tail component %s of the (entry, exit) pairs; an edge must leave the head "
                 "block's exit (.1) and enter the tail block's entry (.0)" % (lab, h, tl))
    # at least the manual-edge loop and the successor loop each connect blocks (6 direct calls on the pinned tree, 2 when the
    # duplicate test and the creation are factored into one helper)
    r.floor(2, "inter-block edge calls")
    binsert = [(i, t) for i, t in calls(body, "BTreeMap::<K, V, A>::insert") if recv(t, "block_indices")]
    rep.anchor(len(binsert) == 1, "block_indices.insert")
    v = tm.operand(binsert[0][1]["args"][2])
    if isinstance(v, tuple) and v[0] == "agg" and len(v) >= 3 and len(v[2]) == 2:
        v = ("tuple", v[2])        # a two-field struct carrying the pair (fields are positional in MIR)
    ok = isinstance(v, tuple) and v[0] == "tuple" and len(v[1]) == 2
    comp = []
    if ok:
        def outer(c_):
            if isinstance(c_, tuple) and c_ and c_[0] == "phi":
                o_ = set()
                for a_ in c_[1]:
                    o_ |= outer(a_)
                return o_
            if isinstance(c_, tuple) and len(c_) == 3 and c_[0] == "field":
                return {c_[2]}
            return set()
        for c_ in v[1]:
            comp.append(outer(c_))
    rep.anchor(ok and (comp[0] or comp[1]), "the (entry, exit) pair recorded per block is built from components of the instruction pairs "
               "(form not recognised)")
    r.decide(ok and ".0" in comp[0] and ".1" not in comp[0] and ".1" in comp[1] and ".0" not in comp[1], "recorded_pair", where(binsert[0][0]),
             "the pair recorded per block must be (entry component, exit component) of its instructions; components use %s" % comp)

    # ---------------------------------------------------------------- R10 ControlFlowGraph::insert
    INS = CFGT + "::insert"
    ib = db.mir.get(INS)
    rep.anchor(ib is not None, INS)
    rep.analysed(INS)
    r = rep.rule("R10", "K6", "ControlFlowGraph::insert returns (new index of the inserted graph's entry, new index of its exit): "
                 "component 0 of the returned pair depends (data, or control selecting between its definitions) on other.entry() "
                 "and not on other.exit(); component 1 the reverse")
    # decided by dependence (data, and control only through branches that select between definitions): how the function
    # finds the two indices -- a flag set in the copy loop, a lookup in the index map, a helper -- does not matter
    import mirdep
    from db import op_place

    def marker(c, t):
        return {CFGT + "::entry": "entry", CFGT + "::exit": "exit"}.get(c)

    dep = mirdep.Dep(db, INS, marker)
    pairs = []
    for bi_, b in enumerate(ib["blocks"]):
        for s_ in b["s"]:
            rv = s_.get("rv", {})
            if s_.get("d") == [0] and rv.get("k") == "Aggregate" and str(rv.get("variant", "")).endswith("::Ok") and rv.get("ops"):
                tl = op_place(rv["ops"][0])
                for s2 in b["s"]:
                    if tl and s2.get("d") == [tl[0]] and s2.get("rv", {}).get("k") == "Aggregate" and s2["rv"].get("tuple") and len(s2["rv"]["ops"]) == 2:
                        pairs.append((bi_, s2))
    rep.anchor(len(pairs) >= 1, "the Ok((a, b)) results of ControlFlowGraph::insert")
    for n_, (bi_, s2) in enumerate(pairs):
        comps = []
        for o in s2["rv"]["ops"]:
            pl = op_place(o)
            comps.append(dep.deps(pl[0], bi_) if pl else set())
        for k_, (nm, other_nm) in enumerate((("entry", "exit"), ("exit", "entry"))):
            r.decide(nm in comps[k_] and other_nm not in comps[k_], "insert|%s_index%s" % (nm, "" if n_ == 0 else "|%d" % n_), db.where(ib, s2["l"]),
                     "component %d of the returned pair must be determined by other.%s() and not by other.%s(); it depends on %s" % (
                         k_, nm, other_nm, sorted(comps[k_]) or "neither"))

    # ---------------------------------------------------------------- R11 MIPS delay slot room
    r = rep.rule("R11", "K9", "MIPS window end: in a full 64-byte window a branch is lifted only when at least 8 bytes (branch and delay "
                 "slot) remain; the look-ahead guard is evaluated for every word offset of the window")
    hbm, mm = lifters.insn_matches(db, "mips")
    from db import walk, strip
    mhb = db.hir[lifters.TB["mips"]]

    def conjuncts(c):
        c = strip(c)
        if c.get("k") == "Binary" and c.get("op") == "And":
            return conjuncts(c["a"]) + conjuncts(c["b"])
        return [c]

    def room_test(x):
        return x.get("k") == "If" and any(y.get("k") == "MethodCall" and y["name"] == "len" for y in walk(x["c"])) and \
            any(y.get("k") == "Path" and y.get("res", {}).get("local") == "offset" for y in walk(x["c"]))

    # form 1: the room test sits in the arms of a match over the mnemonic (the look-ahead match lists the delay-slot branches);
    # form 2: one condition `is_delay_slot_branch(id) && <room test>` in translate_block - a conjunct that is not arithmetic over
    # (offset, len) distinguishes it from the plain `offset >= len` loop test
    guards = [x for m_ in mm[1:2] for a in m_.arms if not a["wild"] for x in walk(a["arm"].body) if x.get("k") == "If"]
    if not guards:
        guards = [x for x in walk(mhb["body"]) if room_test(x) and any(y.get("k") == "Break" for y in walk(x["then"])) and
                  len(conjuncts(x["c"])) >= 2 and any(evalg(cj, {"offset": 0, "len": 64, "db": db}, {}) is None for cj in conjuncts(x["c"]))]
    rep.anchor(len(guards) >= 1, "the look-ahead guard")
    g = guards[0]
    lets = {}
    for x in walk(mhb["body"]):
        if x.get("k") == "Block":
            for st in x.get("stmts", ()):
                if st["k"] == "Let" and "init" in st and st["pat"].get("k") == "Bind":
                    lets[st["pat"]["hid"]] = st["init"]
    worst = None
    undecided = False
    for L in (64,):          # a full window; shorter windows mean the mapped memory ends and nothing follows
        for o in range(0, L + 1, 4):
            # conjuncts that are not arithmetic over (offset, len) - the test "this is a branch with a delay slot" - hold in the case
            # the rule is about
            vs = [evalg(cj, {"offset": o, "len": L, "db": db}, lets) for cj in conjuncts(g["c"])]
            arith = [x for x in vs if x is not None]
            if not arith:
                undecided = True
                break
            v = all(arith)
            if v is False and L - o < 8 and (worst is None or L - o < worst[1] - worst[0]):
                worst = (o, L)
        if undecided:
            break
    if undecided:
        r.open("mips|delay_slot_room", db.where(mhb, g["l"]), "guard is not an arithmetic comparison of offset and bytes.len()")
    else:
        r.decide(worst is None, "mips|delay_slot_room", db.where(mhb, g["l"]),
                 "with offset %s in a window of %s bytes (%s bytes left) the branch is lifted although its delay slot is not in the "
                 "window: the delay-slot instruction is lost" % (worst and worst[0], worst and worst[1], worst and worst[1] - worst[0]))

    # ---------------------------------------------------------------- R8 window end in the block translators
    c05.r5(db, rep, c05.ARCHES, "R8")
    r = rep.rule("R8b", "K6", "window end: each block translator pushes an unguarded fall-through successor when it stops because the "
                 "window is exhausted")
    for arch in c05.ARCHES:
        fn = lifters.TB[arch]
        b = db.mir[fn]
        btm = terms_of(db, fn, {})
        u64p = [i for i in range(1, b["argc"] + 1) if b["types"][b["locals"][i]] == "u64"]
        al = u64p[0] if len(u64p) == 1 else local_of(b, "address")
        sl = None
        for li, ty in enumerate(b["locals"]):
            if "Vec<(u64, std::option::Option<il::expression::Expression>)>" in b["types"][ty] and not b["types"][ty].startswith("&"):
                if sl is None and li > b["argc"]:
                    sl = li
        rep.anchor(sl is not None and al is not None, "%s: successor list and load address" % fn)
        st = btm.local(sl)
        found = False
        for i, t in mir_calls(b):
            if not (mir_callee(t) or "").endswith("Vec::<T, A>::push") or btm.operand(t["args"][0]) != st:
                continue
            a = btm.operand(t["args"][1])
            if isinstance(a, tuple) and a[0] == "tuple" and len(a[1]) == 2 and isinstance(a[1][1], tuple) and a[1][1][0] == "agg" \
                    and a[1][1][1].endswith("None"):
                addr = a[1][0]
                adds = [x for x in subterms(addr) if isinstance(x, tuple) and x and x[0] == "bin" and x[1].startswith("Add")]
                if any(("param", al) in (x[2], x[3]) for x in adds):
                    found = True
        r.decide(found, "%s|fallthrough_successor" % arch, db.where(b),
                 "%s translate_block never pushes the unguarded successor (address + offset, None)" % arch)


EDGE_FNS = (CFGT + "::edge", CFGT + "::conditional_edge", CFGT + "::unconditional_edge")


def edge_wrappers(db):
    """Crate functions that merely forward two of their usize parameters as (head, tail) to the graph's edge functions, the same
    pair in the same order at every such call: {fn: (head param, tail param)}.  A call to such a wrapper is an edge call."""
    out = {}
    for k in db.mir.keys():
        if not k.startswith("translator::") or "::{closure#" in k or k == TFE:
            continue
        b = db.mir[k]
        sites = [t for i, t in mir_calls(b) if (mir_callee(t) or "") in EDGE_FNS]
        if not sites:
            continue
        tm = terms_of(db, k, {})
        pairs = set()
        for t in sites:
            h, tl = tm.operand(t["args"][1]), tm.operand(t["args"][2])
            pairs.add((h[1] if h[0] == "param" else None, tl[1] if tl[0] == "param" else None))
        if len(pairs) == 1:
            (h, tl), = pairs
            if h is not None and tl is not None and h != tl:
                out[k] = (h, tl)
    return out


def edge_sites(db, body, tm):
    """(block, label, head term, tail term) of every edge test / creation in the body, direct or through a wrapper."""
    wr = edge_wrappers(db)
    out = []
    for i, t in mir_calls(body):
        c = mir_callee(t) or ""
        if c in EDGE_FNS:
            out.append((i, last_seg(c), tm.operand(t["args"][1]), tm.operand(t["args"][2])))
        elif c in wr:
            h, tl = wr[c]
            out.append((i, last_seg(c), tm.operand(t["args"][h - 1]), tm.operand(t["args"][tl - 1])))
    return out


def merge_rules(db, rep, rid="R7"):
    mb = db.mir.get(MERGE)
    rep.anchor(mb is not None, MERGE)
    rep.analysed(MERGE)
    adt = db.adt(CFGT)
    fields = [f["name"] for f in adt["variants"][0]["fields"]]
    ei, xi = ".%d" % fields.index("entry"), ".%d" % fields.index("exit")
    r = rep.rule(rid, "K5", "merge keeps the entry: it never assigns the entry field, no block is scheduled for merging before the "
                 "successor was compared with the entry, and when the absorbed block was the exit the exit moves to the absorber "
                 "(merge is analysed together with the private helpers it is split into)")
    import props.c15 as c15
    unit = c15.unit_of(db, MERGE)
    ew, xw = [], []
    for u, sp in unit:
        ub = db.mir[u]
        for i, b in enumerate(ub["blocks"]):
            for s_ in b["s"]:
                if len(s_["d"]) >= 3 and s_["d"][0] == sp and s_["d"][-1] in (ei, xi):
                    (ew if s_["d"][-1] == ei else xw).append((ub, s_))
    r.decide(not ew, "entry_not_written", db.where(ew[0][0], ew[0][1]["l"]) if ew else db.where(mb),
             "merge assigns the entry: the block at the function address can be absorbed by a predecessor and execution starts elsewhere")
    r.decide(len(xw) == 1, "exit_follows_absorber", db.where(mb), "merge must move the exit to the absorbing block exactly once")
    # scheduling: the push of a (absorber, absorbed) pair is preceded by the comparison with the entry, in the same function or in
    # the helper that selects the candidate
    cmp_fns = [u for u, _sp in unit if calls(db.mir[u], CFGT + "::entry")]
    push_fns = [u for u, _sp in unit if calls(db.mir[u], "Vec::<T, A>::push")]
    ok = bool(cmp_fns) and bool(push_fns)
    where_ = db.where(mb)
    for pf in push_fns[:1]:
        pb = db.mir[pf]
        pcfg = Cfg(pb)
        first_push = calls(pb, "Vec::<T, A>::push")[0][0]
        gate = [i for i, t in calls(pb, CFGT + "::entry")] + [i for i, t in mir_calls(pb) if (mir_callee(t) or "") in cmp_fns and (mir_callee(t) or "") != pf]
        ok = ok and bool(gate) and first_push not in pcfg.reachable(0, avoid=gate)
        where_ = db.where(pb, pb["blocks"][gate[0]]["t"]["l"]) if gate else db.where(pb)
    r.decide(ok, "entry_compared", where_,
             "a merge can be scheduled without the successor having been compared with the entry vertex")
    cmp_ok = False
    for u in cmp_fns:
        for c in [u] + list(db.closures_of(u)):
            cbody = db.mir.get(c)
            if cbody is None:
                continue
            for b in cbody["blocks"]:
                for s_ in b["s"]:
                    if s_.get("rv", {}).get("k") == "BinaryOp" and s_["rv"].get("op") == "Eq":
                        cmp_ok = True
    r.decide(cmp_ok, "entry_equality", db.where(mb), "the entry comparison must be an equality with the successor")


def evalg(e, env, lets, depth=0):
    """Finite evaluation of a pure arithmetic guard over (offset, bytes.len()); None = not understood."""
    from db import strip
    e = strip(e)
    k = e.get("k")
    if depth > 12:
        return None
    if k == "Lit" and "int" in e["v"]:
        return e["v"]["int"]
    if k == "Path" and "def" in e.get("res", {}) and "local" not in e["res"]:
        h = env["db"].hir.get(e["res"]["def"]) if "db" in env else None
        if h is not None and h.get("body", {}).get("k") == "Lit" and "int" in h["body"]["v"]:
            return h["body"]["v"]["int"]
        return None
    if k == "Path" and "local" in e.get("res", {}):
        nm = e["res"]["local"]
        if nm == "offset":
            return env["offset"]
        init = lets.get(e["res"].get("hid"))
        return evalg(init, env, lets, depth + 1) if init is not None else None
    if k == "MethodCall" and e["name"] == "len":
        return env["len"]
    if k == "Cast":
        return evalg(e["e"], env, lets, depth + 1)
    if k == "Binary":
        a, b = evalg(e["a"], env, lets, depth + 1), evalg(e["b"], env, lets, depth + 1)
        if a is None or b is None:
            return None
        op = e["op"]
        if op == "Add":
            return a + b
        if op == "Sub":
            return a - b if a >= b else 0      # usize subtraction: an underflow would panic, which C05 covers
        if op == "Mul":
            return a * b
        if op in ("Lt", "Le", "Gt", "Ge", "Eq", "Ne"):
            return {"Lt": a < b, "Le": a <= b, "Gt": a > b, "Ge": a >= b, "Eq": a == b, "Ne": a != b}[op]
        if op in ("And", "Or") and isinstance(a, bool) and isinstance(b, bool):
            return (a and b) if op == "And" else (a or b)
    if k == "Unary" and e["op"] == "Not":
        v = evalg(e["e"], env, lets, depth + 1)
        return (not v) if isinstance(v, bool) else None
    return None


def calls_in_any(t):
    return any(isinstance(x, tuple) and x and x[0] == "call" for x in subterms(t))


def resolve_const(db, t):
    """Replace named constants of the crate by their literal value where the item table records one."""
    if not isinstance(t, tuple) or not t:
        return t
    if t[0] == "constv" and len(t) > 1 and isinstance(t[1], str):
        h = db.hir.get(t[1])
        if h is not None and h.get("body", {}).get("k") == "Lit" and isinstance(h["body"]["v"].get("int"), int):
            return ("const", h["body"]["v"]["int"])
    return tuple(resolve_const(db, x) if isinstance(x, tuple) else x for x in t)


MANIFEST = {
    "technique": "static analysis: MIR control-flow rules (must-pass-through, reachability, dominators), def-use provenance of map keys, data/control dependence of returned values on marker calls, interval bounds, field-write rules",
    "text": "Decides on every run structural necessary conditions of correct function recovery: the work list is closed under "
            "successors and manual edges and every dequeued address is recorded; every address-keyed lookup uses a key from "
            "that set; an instruction is inserted once per address and reused otherwise; stitching edges are created on both "
            "the fresh and the shared path; the entry is the function address's block; the window length has a constant "
            "lower bound >= 16 bytes; merge never rewrites or absorbs the entry and moves the exit; block translators "
            "advance and emit the fall-through successor at the window end. It does not decide the behavioural equivalence "
            "with sequential execution, nor duplicate-edge suppression when two successors share one address.",
    "note": "Trusted: rustc nightly MIR at mir-opt-level 0; the def-use term builder (fv/mirterm.py).",
}
