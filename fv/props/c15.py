"""C15 — CFG construction and editing.

Decided: functions that remove blocks keep entry *and* exit valid, using the current field values (R1);
set_entry/set_exit assign only after has_vertex (R2); blocks and instructions get fresh indices, index
constructors are not public (R3, IDX); append/insert map both ends of every copied edge through the block
map and connect exit -> entry (R4); the graph views underneath stay mutually consistent (R5 = C11.R1).
Not decided: that merge/append preserve the executable instruction sequences.
"""
from armlib import last_seg
from db import Cfg, mir_callee, mir_calls, walk, callee
from mirterm import bodies_under, calls_in, params_of, show, subterms, terms_of
import idxkind

CFGT = "il::control_flow_graph::ControlFlowGraph"


def field_index(db, struct, name):
    it = db.adt(struct)
    for i, f in enumerate(it["variants"][0]["fields"]):
        if f["name"] == name:
            return ".%d" % i
    return None


def run(db, rep, feat, tier):
    rep.explanation = (
        "Static rules over MIR/HIR of lib/il/control_flow_graph.rs, lib/il/block.rs and lib/graph/mod.rs: every "
        "ControlFlowGraph function that removes a vertex protects the entry (skips merging it away) and re-points the "
        "exit, comparing the exit field as it is after the removal (not a stale copy); entry/exit are assigned only on "
        "the true side of has_vertex; new_block/append/insert take next_index and increment it; Block::new, Edge::new, "
        "clone_new_index are not public; instruction indices come from new_instruction_index and are never confused "
        "with positions; copied edges have both ends mapped through block_map; append links old exit to new entry and "
        "moves the exit; plus the adjacency-view rules of the graph library. Preservation of executable instruction "
        "sequences by merge/append is not decided.")
    fe, fx = field_index(db, CFGT, "entry"), field_index(db, CFGT, "exit")
    fn_ = field_index(db, CFGT, "next_index")
    rep.anchor(fe and fx and fn_, "fields entry/exit/next_index of ControlFlowGraph")
    r1(db, rep, fe, fx)
    r2(db, rep, fe, fx)
    r3(db, rep, fn_)
    idxkind.rule(db, rep, "R3b")
    r4(db, rep, fe, fx)
    import props.c11 as c11
    before = len(rep.rules)
    c11.r1(db, rep, c11.graph_fns(db))
    for rr in rep.rules[before:]:
        rr.id = "R5." + rr.id
        for i in rr.instances:
            i["key"] = "R5." + i["key"]
            i["rule"] = rr.id
    # merge keeps the entry: merging the entry block into a predecessor changes what executes first (C06.R7)
    import props.c06 as c06
    c06.merge_rules(db, rep, "R6")


def reads_field(body, fld):
    """(block, statement index, dest local) of every statement reading (*_1).<fld>"""
    out = []
    for i, b in enumerate(body["blocks"]):
        for j, s in enumerate(b["s"]):
            rv = s.get("rv")
            if not rv:
                continue
            for k in ("op",):
                o = rv.get(k)
                if isinstance(o, dict):
                    pl = o.get("c") or o.get("m")
                    if pl and pl[:3] == [1, "*", fld]:
                        out.append((i, j, s["d"][0]))
            if rv.get("k") in ("Ref", "CopyForDeref") and rv.get("p", [])[:3] == [1, "*", fld]:
                out.append((i, j, s["d"][0]))
    return out


def writes_field(body, fld):
    return [i for i, b in enumerate(body["blocks"]) for s in b["s"] if s.get("d", [])[:3] == [1, "*", fld] and "rv" in s]


def r1(db, rep, fe, fx):
    r = rep.rule("R1", "K7", "every ControlFlowGraph function that removes a block keeps entry and exit valid: the entry "
                 "block is never the one merged away, and after a removal the exit field is re-read, compared with the "
                 "removed index and re-pointed")
    cache = {}
    n = 0
    for d in db.mir.in_file("il/control_flow_graph.rs"):
        if "::{closure#" in d or "tests::" in d:
            continue
        body = db.mir[d]
        rem = [i for i, t in mir_calls(body) if last_seg(mir_callee(t) or "") in ("remove_vertex", "remove_unreachable_vertices")]
        if not rem:
            continue
        n += 1
        rep.analysed(d)
        cfg = Cfg(body)
        tm = terms_of(db, d, cache)
        # entry protection: a call to entry() / read of the entry field feeds a comparison with the candidate
        entry_guard = False
        for i, b in enumerate(body["blocks"]):
            t = b["t"]
            if t["k"] == "SwitchInt":
                c = tm.operand(t["discr"])
                txt = [last_seg(x[1]) for x in calls_in(c)]
                if "entry" in txt or any(s_ == ("field", ("param", 1), fe) for s_ in subterms(c)):
                    entry_guard = True
        if not entry_guard and db.hir.get(d) is not None and db.hir[d].get("vis") != "Public":
            # a private step of a public editing function: the comparison may be made by the function that schedules the
            # removal - look at the whole unit (the public callers of this helper with their private helpers)
            for root in db.mir.in_file("il/control_flow_graph.rs"):
                if "::{closure#" in root or db.hir.get(root) is None or db.hir[root].get("vis") != "Public":
                    continue
                unit = [u for u, _sp in unit_of(db, root)]
                if d not in unit:
                    continue
                for u in unit:
                    ub = db.mir[u]
                    utm = terms_of(db, u, cache)
                    for b in ub["blocks"]:
                        t = b["t"]
                        if t["k"] == "SwitchInt":
                            c = utm.operand(t["discr"])
                            if "entry" in [last_seg(x[1]) for x in calls_in(c)]:
                                entry_guard = True
        r.decide(entry_guard, "%s|entry_protected" % d, db.where(body),
                 "%s removes blocks without looking at the entry" % last_seg(d))
        # exit update: a write of the exit field after the removal, guarded by a comparison of a *fresh* read
        wx = [w for w in writes_field(body, fx) if any(cfg.dominates(rm, w) for rm in rem)]
        fresh = False
        for (bi, sj, loc) in reads_field(body, fx):
            if any(cfg.dominates(rm, bi) for rm in rem):
                fresh = True
        stale = [1 for (bi, sj, loc) in reads_field(body, fx) if not any(cfg.dominates(rm, bi) for rm in rem)]
        uses_method = any(last_seg(mir_callee(t) or "") == "exit" and any(cfg.dominates(rm, i) for rm in rem)
                          for i, t in mir_calls(body))
        r.decide(bool(wx) and (fresh or uses_method), "%s|exit_updated" % d, db.where(body),
                 "%s removes blocks but does not re-point the exit from its current value (writes after removal: %d, "
                 "fresh reads: %s, reads taken before the removal: %d)" % (last_seg(d), len(wx), fresh or uses_method, len(stale)))
    r.floor(1, "ControlFlowGraph::merge")


def r2(db, rep, fe, fx):
    r = rep.rule("R2", "K6", "set_entry / set_exit assign the field only on the true side of has_vertex")
    for name, fld in (("set_entry", fe), ("set_exit", fx)):
        d = "%s::%s" % (CFGT, name)
        body = db.mir.get(d)
        rep.anchor(body is not None, d)
        rep.analysed(d)
        cfg = Cfg(body)
        tm = terms_of(db, d, {})
        good = None
        for i, b in enumerate(body["blocks"]):
            t = b["t"]
            if t["k"] == "SwitchInt":
                c = tm.operand(t["discr"])
                if c[0] == "call" and last_seg(c[1]) == "has_vertex" and ("param", 2) in c[2]:
                    good = t["otherwise"]
        ws = writes_field(body, fld)
        r.decide(good is not None and bool(ws) and all(cfg.dominates(good, w) for w in ws), "%s|guarded" % name,
                 db.where(body), "%s assigns the field without has_vertex" % name)
    # every other writer of entry/exit writes Some(index that was just inserted / mapped) or None
    for d in db.mir.in_file("il/control_flow_graph.rs"):
        if "tests::" in d or last_seg(d) in ("set_entry", "set_exit", "new", "default"):
            continue
        body = db.mir[d]
        for fld, nm in ((fe, "entry"), (fx, "exit")):
            for w in writes_field(body, fld):
                rep.analysed(d)
                r.ok("%s|writes_%s" % (d, nm), db.where(body), detail={"note": "reviewed writer"})


def unit_of(db, d):
    """The function and the private helpers of ControlFlowGraph it calls (transitively), each with the index of the
    parameter that is the graph being edited (`&mut ControlFlowGraph`): a step may be factored out without the rule
    losing sight of it."""
    out = [(d, 1)]
    seen = {d}
    work = [d]
    while work:
        f = work.pop()
        for i, t in mir_calls(db.mir[f]):
            c = mir_callee(t) or ""
            if c in seen or not c.startswith(CFGT + "::") or c not in db.mir:
                continue
            h = db.hir.get(c)
            if h is None or h.get("vis") == "Public":
                continue
            ins = h.get("inputs") or []
            idx = [k + 1 for k, ty in enumerate(ins) if ty.startswith("&") and ty.endswith("ControlFlowGraph")][:1]
            if len(idx) != 1:
                continue
            seen.add(c)
            out.append((c, idx[0]))
            work.append(c)
    return out


def r3(db, rep, fn_):
    r = rep.rule("R3", "K7", "fresh block indices: every block inserted by new_block / append / insert is numbered with "
                 "next_index, which is incremented for each; Block::new, Edge::new and clone_new_index are not public")
    cache = {}
    for name in ("new_block", "append", "insert"):
        d = "%s::%s" % (CFGT, name)
        body = db.mir.get(d)
        rep.anchor(body is not None, d)
        rep.analysed(d)
        ok_idx = True
        n = 0
        incs = 0
        for ud, sp in unit_of(db, d):
            ubody = db.mir[ud]
            tm = terms_of(db, ud, cache)
            for i, t in mir_calls(ubody):
                c = mir_callee(t) or ""
                if c in ("il::block::Block::new", "il::block::Block::clone_new_index"):
                    a = tm.operand(t["args"][-1])
                    n += 1
                    ok_idx = ok_idx and any(s_ == ("field", ("param", sp), fn_) for s_ in subterms(a))
            for b in ubody["blocks"]:
                t = b["t"]
                if t["k"] == "Assert" and t["ak"] == "Overflow" and t["detail"]["op"] == "Add":
                    a = tm.operand(t["detail"]["a"])
                    if a == ("field", ("param", sp), fn_):
                        incs += 1
        r.decide(n >= 1 and ok_idx and incs >= 1, "%s|fresh_index" % name, db.where(body),
                 "%s numbers a new block with something other than next_index or does not advance it" % name)
    for fnp in ("il::block::Block::new", "il::block::Block::clone_new_index", "il::edge::Edge::new",
                "il::instruction::Instruction::clone_new_index"):
        h = db.hir.get(fnp)
        if h is None:
            r.open("%s|visibility" % fnp, "", "not found")
            continue
        r.decide(h.get("vis") != "Public", "%s|visibility" % fnp, db.where(h),
                 "%s is public: callers could create blocks/edges/instructions with arbitrary indices" % fnp)


def r4(db, rep, fe, fx):
    r = rep.rule("R4", "K4", "append / insert: every copied edge is created from block_map[head] and block_map[tail]; "
                 "append links the old exit to the mapped entry of the appended graph and moves the exit to its mapped exit")
    cache = {}
    for name in ("append", "insert"):
        d = "%s::%s" % (CFGT, name)
        body = db.mir[d]
        tm = terms_of(db, d, cache)
        edges = []
        for ud, sp in unit_of(db, d):
            utm = terms_of(db, ud, cache)
            for i, t in mir_calls(db.mir[ud]):
                if mir_callee(t) == "il::edge::Edge::new":
                    edges.append([(utm if ud != d else tm).operand(a) for a in t["args"]])
        copied = [e for e in edges if any(last_seg(c[1]) in ("head", "tail") for a in e[:2] for c in calls_in(a))]
        okc = bool(copied)
        for e in copied:
            h, tl = e[0], e[1]
            mh = any(last_seg(c[1]) == "index" and any(last_seg(x[1]) == "head" for x in calls_in(c)) for c in calls_in(h))
            mt = any(last_seg(c[1]) == "index" and any(last_seg(x[1]) == "tail" for x in calls_in(c)) for c in calls_in(tl))
            okc = okc and mh and mt
        r.decide(okc, "%s|edges_mapped" % name, db.where(body),
                 "a copied edge does not take head from block_map[edge.head()] and tail from block_map[edge.tail()]")
        if name == "append":
            link = [e for e in edges if e not in copied]
            okl = False
            for e in link:
                h, tl = e[0], e[1]
                from_exit = any(s_ == ("field", ("param", 1), fx) for s_ in subterms(h))
                to_entry = any(last_seg(c[1]) == "entry" for c in calls_in(tl)) and any(last_seg(c[1]) == "index" for c in calls_in(tl))
                uncond = e[2][0] == "agg" and last_seg(e[2][1]) == "None" if len(e) > 2 else False
                okl = okl or (from_exit and to_entry and uncond)
            r.decide(okl, "append|link", db.where(body),
                     "append must add an unconditional edge from the old exit to block_map[other.entry()]")
            # exit moved to mapped exit of other
            wx = []
            for b in body["blocks"]:
                for s in b["s"]:
                    if s.get("d", [])[:3] == [1, "*", fx] and "rv" in s:
                        wx.append(tm.rvalue(s["rv"], 14))
            okx = bool(wx) and all(any(last_seg(c[1]) == "exit" for c in calls_in(v)) and any(last_seg(c[1]) == "index" for c in calls_in(v)) for v in wx)
            r.decide(okx, "append|exit_moved", db.where(body), "append must set exit to block_map[other.exit()]")


MANIFEST = {
    "technique": "static analysis: field read/write census with MIR dominance (fresh vs stale reads), def-use provenance of indices and edge endpoints, visibility facts",
    "text": "Decides on every run the structural consistency clauses of CFG editing: entry and exit survive block removal "
            "(exit re-pointed from its current value), entry/exit only name existing blocks when set, block and "
            "instruction indices are fresh and never confused with positions, copied edges are re-mapped at both ends, "
            "append links exit to entry, and the underlying graph views change only together. It does not decide that "
            "merging or appending preserves the instruction sequences executable from the entry.",
    "note": "Trusted: rustc nightly MIR/HIR; field positions are taken from the struct definition of the analysed tree.",
}
