"""C01 — x86 / amd64 lifter.

Decided (structural necessary conditions of agreement with the processor): the register tables follow the architectural
families and every sub-register read/write composes the full register bit-exactly (bit provenance of X86Register::get/set
for every row) (R1); every Jcc/CMOVcc/SETcc condition is, as a truth table over CF,ZF,SF,OF,PF, the SDM condition of its
mnemonic (R2); each handler writes exactly the architecturally affected flags among CF/ZF/SF/OF/DF, and every flag that is
read is written somewhere (R3); REP/LOOP counters are the address-size count register and the ZF-terminated REP set is
CMPS/SCAS (R4); terminators and successor counts (R5); operand snapshot per operand form (R6); widths, successor
exclusivity, entry/exit, progress, default arm (R7..). Not decided: arithmetic values (carry/overflow formulas, shift
counts, multiplication/division results), SSE lane arithmetic.
"""
import itertools
import re

from armlib import last_seg
from db import callee, walk, pat_bindings, pat_leaves, pat_path
import bitprov
import ilshape
import lifters
import tables
import props.c05 as c05
import props.c02 as c02

SEM = "translator::x86::semantics::Semantics::<'s>::"
REGT = "translator::x86::x86register::"
FLAGS = {"CF", "ZF", "SF", "OF", "DF"}
OPT = "falcon_capstone::capstone::x86_op_type::X86_OP_"

# Intel SDM vol. 1 appendix B / vol. 2 Jcc: condition per mnemonic suffix
CC = {
    "A": lambda f: f["CF"] == 0 and f["ZF"] == 0, "AE": lambda f: f["CF"] == 0, "B": lambda f: f["CF"] == 1,
    "BE": lambda f: f["CF"] == 1 or f["ZF"] == 1, "E": lambda f: f["ZF"] == 1, "NE": lambda f: f["ZF"] == 0,
    "G": lambda f: f["ZF"] == 0 and f["SF"] == f["OF"], "GE": lambda f: f["SF"] == f["OF"],
    "L": lambda f: f["SF"] != f["OF"], "LE": lambda f: f["ZF"] == 1 or f["SF"] != f["OF"],
    "O": lambda f: f["OF"] == 1, "NO": lambda f: f["OF"] == 0, "P": lambda f: f["PF"] == 1, "NP": lambda f: f["PF"] == 0,
    "S": lambda f: f["SF"] == 1, "NS": lambda f: f["SF"] == 0,
}
CCFLAGS = ("CF", "ZF", "SF", "OF", "PF")

ALU = {"CF", "ZF", "SF", "OF"}
# flags each handler must assign (exactly, among CF/ZF/SF/OF/DF) — SDM vol. 2 "Flags Affected"; undefined flags may go either way ("any")
FLAGS_REF = {
    "adc": ALU, "add": ALU, "and": ALU, "cmp": ALU, "cmpsb": ALU, "cmpxchg": ALU, "neg": ALU, "or": ALU, "sbb": ALU,
    "scasb": ALU, "scasw": ALU, "sub": ALU, "test": ALU, "xadd": ALU, "xor": ALU, "sar": ALU, "shl": ALU, "shr": ALU,
    "inc": {"ZF", "SF", "OF"}, "dec": {"ZF", "SF", "OF"},
    "bsf": {"ZF"}, "bsr": {"ZF"}, "bt": {"CF"}, "btc": {"CF"}, "btr": {"CF"}, "bts": {"CF"},
    "clc": {"CF"}, "stc": {"CF"}, "cmc": {"CF"}, "cld": {"DF"}, "std": {"DF"},
    "mul": {"CF", "OF"}, "imul": {"CF", "OF"}, "rol": {"CF", "OF"}, "ror": {"CF", "OF"},
    "sahf": {"CF", "ZF", "SF"},
}
FLAGS_ANY = {"shld": ({"CF", "ZF", "SF"}, {"OF"}), "shrd": ({"CF", "ZF", "SF"}, {"OF"}), "div": (set(), ALU), "idiv": (set(), ALU)}
FLAGS_READ = {"adc": {"CF"}, "sbb": {"CF"}, "cmc": {"CF"}, "cmpsb": {"DF"}, "scasb": {"DF"}, "scasw": {"DF"}, "lodsb": {"DF"},
              "lodsd": {"DF"}, "movs": {"DF"}, "stos": {"DF"}}

# operand forms that the decoder does not produce (capstone, Intel syntax: the r/m operand comes first) or that the architecture
# defines to behave as lifted
FORM_INFEASIBLE = {
    "stos": (lambda f: f[0] != "MEM", "STOS stores to es:[(r|e)di]: operand 0 is always a memory operand"),
    "xadd": (lambda f: f[1] != "REG", "XADD r/m, r: operand 1 is always a register"),
    "xchg": (lambda f: f[1] != "REG", "XCHG r/m, r: capstone reports the r/m operand first, operand 1 is always a register"),
    "cmpxchg": (lambda f: f[1] != "REG", "CMPXCHG r/m, r: operand 1 is always a register"),
    "ret": (lambda f: f[0] != "IMM", "RET imm16: the only operand form is an immediate"),
}
HAZARD_OK = {
    ("pop", "operand_store"): "POP m: the SDM defines the effective address of a memory destination that uses (r|e)sp as computed "
                              "after the increment, which is the order lifted",
}


def tables_x86(db):
    out = {}
    for mode, t in (("X86", "X86REGISTERS"), ("Amd64", "AMD64REGISTERS")):
        rows = tables.const_table(db, REGT + t)
        out[mode] = rows
    return out


def family(reg):
    """(bits, offset, 64-bit full register stem) for a GPR enumerator, None otherwise."""
    legacy = {"A": "AX", "B": "BX", "C": "CX", "D": "DX"}
    m = re.fullmatch(r"([ABCD])([LH])", reg)
    if m:
        return 8, 8 if m.group(2) == "H" else 0, legacy[m.group(1)]
    m = re.fullmatch(r"(E|R)?([ABCD]X|SI|DI|SP|BP)", reg)
    if m:
        return {None: 16, "E": 32, "R": 64}[m.group(1)], 0, m.group(2)
    m = re.fullmatch(r"(SI|DI|SP|BP)L", reg)
    if m:
        return 8, 0, m.group(1)
    m = re.fullmatch(r"R(\d+)([BWD]?)", reg)
    if m and 8 <= int(m.group(1)) <= 15:
        return {"B": 8, "W": 16, "D": 32, "": 64}[m.group(2)], 0, "R%s" % m.group(1)
    return None


def r1(db, rep):
    r = rep.rule("R1", "K2", "x86 register tables: name, width, bit offset and full register of every GPR row follow from its "
                 "capstone enumerator (al/ah/ax/eax/rax families; full register e?? in 32-bit mode, r?? in 64-bit mode); ids are "
                 "unique per table; for every sub-register row X86Register::get returns bits [offset, offset+bits) of the full "
                 "register and X86Register::set replaces exactly those bits, preserving the rest for 8/16-bit writes and "
                 "clearing the upper half for 32-bit writes in 64-bit mode (bit provenance of the IL term)")
    tabs = tables_x86(db)
    rep.anchor(all(tabs.values()), "X86REGISTERS / AMD64REGISTERS")
    sh = ilshape.Shape(db)
    n = 0
    for mode, rows in tabs.items():
        ids = [last_seg(x["capstone_reg"]) for x in rows]
        r.decide(len(ids) == len(set(ids)), "%s|unique_ids" % mode, "", "duplicate capstone id in the %s register table" % mode)
        byid = {last_seg(x["capstone_reg"]): x for x in rows}
        for row in rows:
            rid = last_seg(row["capstone_reg"])[8:]
            where = "lib/translator/x86/x86register.rs:%s" % row["_line"]
            fam = family(rid)
            full = byid.get(last_seg(row["full_reg"]))
            key = "%s|row|%s" % (mode, rid)
            if full is None or last_seg(full["full_reg"]) != last_seg(full["capstone_reg"]):
                r.bad(key, where, "%s: full register %s has no full row in the %s table" % (rid, last_seg(row["full_reg"]), mode))
                continue
            if last_seg(row["mode"]) != mode:
                r.bad(key, where, "%s is listed in the %s table with mode %s" % (rid, mode, last_seg(row["mode"])))
                continue
            if fam is not None:
                bits, off, stem = fam
                want_full = ("E" if mode == "X86" else "R") + stem if not stem.startswith("R") else stem
                got = (row["name"], row["bits"], row["offset"], last_seg(row["full_reg"])[8:])
                want = (rid.lower(), bits, off, want_full)
                if got != want:
                    r.bad(key, where, "%s is (%s, %s bits, offset %s, full %s); the architecture gives (%s, %s bits, offset %s, full %s)" % (
                        (rid,) + got + want))
                    continue
            else:
                if not (row["offset"] + row["bits"] <= full["bits"]):
                    r.bad(key, where, "%s does not fit in its full register" % rid)
                    continue
            n += 1
            if last_seg(row["full_reg"]) == last_seg(row["capstone_reg"]):
                r.ok(key, where)
                continue
            # ---- bit provenance of get / set
            fb, b, off = full["bits"], row["bits"], row["offset"]
            src = "reg:%s" % last_seg(row["full_reg"])
            res = sh.run(REGT + "X86Register::get", args={0: ("regrow", row)})
            got = bitprov.bits(res.ret) if ilshape.is_il(res.ret) else None
            want = [(src, off + i) for i in range(b)]
            if got != want:
                r.bad(key, where, "%s.get() yields %s; it must be bits %d..%d of %s" % (rid, bitprov.show(got), off, off + b - 1, full["name"]))
                continue
            res = sh.run(REGT + "X86Register::set", args={0: ("regrow", row), 2: ilshape.opaque(b, "value")})
            asg = [o for o in res.ops if o["kind"] == "Assign"]
            got = bitprov.bits(asg[0]["src"]) if len(asg) == 1 else None
            preserve = b < 32
            want = [("value", i - off) if off <= i < off + b else ((src, i) if preserve else 0) for i in range(fb)]
            if got != want:
                r.bad(key, where, "%s.set(v) assigns %s = %s; the architecture gives %s" % (rid, full["name"], bitprov.show(got), bitprov.show(want)))
                continue
            r.ok(key, where, detail={"set": bitprov.show(got)})
    r.floor(130, "register rows")


def r2(db, rep, disp):
    r = rep.rule("R2", "K9", "condition codes: for every Jcc / CMOVcc / SETcc mnemonic the expression cc_condition builds is, as a "
                 "truth table over CF,ZF,SF,OF,PF, the SDM condition of the mnemonic's suffix; J(E)CXZ compare the 16/32-bit "
                 "count register with zero; the three users obtain their condition from cc_condition")
    f = SEM + "cc_condition"
    hb = db.hir.get(f)
    rep.anchor(hb is not None, "Semantics::cc_condition")
    m0 = [n for n in walk(hb["body"]) if n.get("k") == "Match" and n.get("src") == "Normal"]
    # the decoded mnemonic: the binding (if-let, let-else or plain let) that the one mnemonic match scrutinises
    scr_hid = None
    if len(m0) == 1:
        sc = m0[0]["scrut"]
        while sc.get("k") in ("AddrOf", "Unary", "Cast", "DropTemps", "Paren") and "e" in sc:
            sc = sc["e"]
        if sc.get("k") == "Path" and "hid" in sc.get("res", {}):
            scr_hid = sc["res"]["hid"]
    from db import all_patterns
    binds = [b for pt in all_patterns(hb["body"]) for b in pat_bindings(pt) if b[1] == scr_hid]
    m = [n for n in walk(hb["body"]) if n.get("k") == "Match" and n.get("src") == "Normal"]
    rep.anchor(bool(binds) and len(m) == 1, "cc_condition: instruction_id binding and its match")
    hid = binds[0][1]
    ids = {}
    for a in m[0]["arms"]:
        for leaf in pat_leaves(a["pat"]):
            p = pat_path(leaf)
            if p:
                ids[last_seg(p)[8:]] = p
    disp_ids = {i[8:] for i in disp.by_id()}
    sh = ilshape.Shape(db)
    n = 0
    for fam in ("J", "CMOV", "SET"):
        for suf, pred in sorted(CC.items()):
            mn = fam + suf
            key = "x86|%s" % mn
            if mn not in disp_ids:
                r.bad(key, db.where(hb), "%s is not dispatched" % mn)
                continue
            if mn not in ids:
                r.bad(key, db.where(hb), "%s is dispatched to a conditional handler but cc_condition has no arm for it" % mn)
                continue
            sh.overrides = {hid: ("path", ids[mn])}
            res = sh.run(f)
            sh.overrides = {}
            e = res.ret
            fm = c05.formula(e) if ilshape.is_il(e) else None
            if fm is None:
                r.open(key, db.where(hb), "condition of %s is not a boolean combination of flag comparisons" % mn)
                continue
            at = {}
            c05.atoms_of(fm, at)
            names = {k for k in at if not isinstance(k, tuple)}
            if not names <= {"scalar:" + x for x in CCFLAGS}:
                r.bad(key, db.where(hb), "condition of %s reads %s" % (mn, sorted(names)))
                continue
            bad = None
            for vals in itertools.product((0, 1), repeat=5):
                fl = dict(zip(CCFLAGS, vals))
                got = c05.evalf(fm, {"scalar:" + k: v for k, v in fl.items()})
                if got != bool(pred(fl)):
                    bad = (fl, got)
                    break
            n += 1
            r.decide(bad is None, key, db.where(hb), "%s is %s when %s; the SDM condition gives %s (built: %s)" % (
                mn, bad and bad[1], bad and ", ".join("%s=%d" % kv for kv in bad[0].items()), bad and (not bad[1]), ilshape.show_e(e)))
    for mn, reg, w in (("JCXZ", "X86_REG_CX", 16), ("JECXZ", "X86_REG_ECX", 32)):
        key = "x86|%s" % mn
        if mn not in ids:
            r.bad(key, db.where(hb), "%s has no arm in cc_condition" % mn)
            continue
        sh.overrides = {hid: ("path", ids[mn])}
        res = sh.run(f)
        sh.overrides = {}
        fm = c05.formula(res.ret) if ilshape.is_il(res.ret) else None
        ok = fm is not None and fm[0] == "atom" and fm[1] == "reg:%s" % reg and fm[2] == 0 and fm[3] == w
        r.decide(ok, key, db.where(hb), "%s must test %s == 0 over %d bits; built %s" % (mn, reg[8:].lower(), w, ilshape.show_e(res.ret) if ilshape.is_il(res.ret) else res.ret))
    for user in ("cmovcc", "setcc"):
        ub = db.hir.get(SEM + user)
        ok = ub is not None and any((callee(x) or x.get("m") or "") == f for x in walk(ub["body"]))
        r.decide(ok, "x86|%s|uses_cc_condition" % user, db.where(ub) if ub else "", "%s must obtain its condition from cc_condition" % user)
    r.floor(48, "condition mnemonics")


def r3(db, rep, runs):
    r = rep.rule("R3", "K3", "flags affected: every handler assigns exactly the flags the SDM lists as modified among CF/ZF/SF/OF/DF "
                 "(INC/DEC leave CF, BT* and rotates leave ZF/SF, MOV/LEA/PUSH/POP/NOT/XCHG/SSE moves leave all), reads CF/DF where "
                 "the instruction consumes them, and every flag read anywhere is written by some handler")
    written, read = set(), {}
    hs = lifters.handlers_of(db, "x86")
    for h in hs:
        res = runs.get(h)
        nm = last_seg(h)
        if res is None or nm in ("rep_prefix", "repne_prefix"):
            continue
        sig = c02.signature(res)
        W = {x for x in sig["W"] if isinstance(x, str)} | {y for x in sig["W"] if isinstance(x, tuple) for y in x}
        Wf = W & FLAGS
        written |= W
        for x in sig["R"]:
            read.setdefault(x, nm)
        if nm in FLAGS_ANY:
            must, may = FLAGS_ANY[nm]
            ok = must <= Wf <= must | may
            want = "%s (and possibly %s)" % (sorted(must), sorted(may))
        else:
            want_set = FLAGS_REF.get(nm, set())
            ok = Wf == want_set
            want = str(sorted(want_set))
        rd_ok = FLAGS_READ.get(nm, set()) <= set(sig["R"])
        msg = "%s assigns %s; the SDM lists %s as modified" % (nm, sorted(Wf), want)
        if ok and not rd_ok:
            msg = "%s must read %s" % (nm, sorted(FLAGS_READ[nm] - set(sig["R"])))
        r.decide(ok and rd_ok, "x86|%s|flags" % nm, db.where(db.hir[h]), msg, detail={"assigns": sorted(Wf)})
    for h in (SEM + "cc_condition", SEM + "loop_condition"):
        res = runs.get(h)
        if res is not None:
            for x in res.reads:
                read.setdefault(x, last_seg(h))
    for fl in sorted(x for x in read if isinstance(x, str) and x.isupper() and len(x) == 2 and x.endswith("F")):
        r.decide(fl in written, "x86|flag_written|%s" % fl, db.where(db.hir[SEM + "cc_condition"]),
                 "flag %s is read (by %s) but no instruction handler ever assigns it: JP/JNP/CMOVP/CMOVNP/SETP/SETNP decide on a value "
                 "the lifted code never computes" % (fl, read[fl]))
    r.floor(90, "x86 handlers")


def r4(db, rep, runs):
    r = rep.rule("R4", "K9", "REP / LOOP counters: the count register is the full-width (r|e)cx of the mode, compared and decremented "
                 "at the mode's width; REP terminates on ZF exactly for CMPS/SCAS, REPNE likewise")
    for nm in ("rep_prefix", "repne_prefix", "loop_"):
        h = SEM + nm
        res = runs.get(h)
        hb = db.hir.get(h)
        rep.anchor(res is not None and hb is not None, "Semantics::%s" % nm)
        asg = [o for o in res.ops if o["kind"] == "Assign" and o.get("via") == "X86Register::set"]
        ok = bool(asg) and all(o["dst"] == ("ecx", "rcx") and ilshape.wnorm(o["src"][1], {}) == ("sym", "mode.bits") for o in asg)
        r.decide(ok, "x86|%s|counter" % nm, db.where(hb),
                 "%s must decrement the full-width count register at the mode's width; it writes %s with a %s-bit value" % (
                     nm, [o["dst"] for o in asg], [ilshape.show_w(ilshape.wnorm(o["src"][1], {})) for o in asg]))
        # guards over the counter compare it at the mode's width
        gs = [e["guard"] for e in res.edges if e["kind"] == "cond"]
        cmpw = set()
        for g in gs:
            for x in subexprs(g):
                if x[2][0] == "opaque" and str(x[2][1]).startswith("reg:full:X86_REG_ECX"):
                    cmpw.add(ilshape.wnorm(x[1], {}))
        if nm != "loop_":
            r.decide(cmpw == {("sym", "mode.bits")}, "x86|%s|counter_test" % nm, db.where(hb),
                     "%s must test the full-width count register; it tests widths %s" % (nm, sorted(map(str, cmpw))))
    lc = runs.get(SEM + "loop_condition")
    rep.anchor(lc is not None, "Semantics::loop_condition")
    ws = set()
    for x in subexprs(lc.ret) if ilshape.is_il(lc.ret) else ():
        if x[2][0] == "opaque" and str(x[2][1]).startswith("reg:"):
            ws.add((x[2][1], ilshape.wnorm(x[1], {})))
    r.decide(ws == {("reg:full:X86_REG_ECX", ("sym", "mode.bits"))}, "x86|loop_condition|counter", db.where(db.hir[SEM + "loop_condition"]),
             "loop_condition must test the full-width count register; it reads %s" % sorted(map(str, ws)))
    # ZF-terminated sets
    for nm in ("rep_prefix", "repne_prefix"):
        hb = db.hir[SEM + nm]
        zf_ids, plain_ids = set(), set()
        for m in walk(hb["body"]):
            if m.get("k") == "Match" and m.get("src") == "Normal":
                for a in m["arms"]:
                    ids = {last_seg(pat_path(p) or "")[8:] for p in pat_leaves(a["pat"]) if pat_path(p)}
                    reads_zf = any(x.get("k") == "Lit" and x["v"].get("str") == "ZF" for x in walk(a["body"]))
                    (zf_ids if reads_zf else plain_ids).update(i for i in ids if i)
        want = {"CMPSB", "CMPSW", "CMPSD", "CMPSQ", "SCASB", "SCASW", "SCASD", "SCASQ"}
        r.decide(zf_ids == want and not (plain_ids & want), "x86|%s|zf_terminated" % nm, db.where(hb),
                 "%s ends on ZF for %s; the architecture: exactly CMPS*/SCAS*" % (nm, sorted(zf_ids)))


def subexprs(e):
    if not ilshape.is_il(e):
        return
    yield e
    if e[2][0] == "op":
        for a in e[2][2]:
            yield from subexprs(a)


def r5(db, rep, hb, disp, term):
    r = rep.rule("R5", "K1", "terminators: Jcc, J(E)CXZ, LOOP*, JMP, RET and HLT end the lifted block; conditional transfers push the "
                 "fall-through and (for a direct target) the taken successor; CALL and every other mnemonic continue")
    by = term.by_id()
    cond = {"J" + s for s in CC} | {"JCXZ", "JECXZ", "LOOP", "LOOPE", "LOOPNE"}
    for i in sorted(cond):
        a = by.get("X86_INS_" + i)
        r.decide(a is not None and a["breaks"] and a["succ_pushes"] == 2, "x86|terminates|%s" % i, db.where(hb, a["line"] if a else term.line),
                 "%s must end the block and push two successors" % i)
    for i, n in (("JMP", 1), ("RET", 0), ("HLT", 0)):
        a = by.get("X86_INS_" + i)
        r.decide(a is not None and a["breaks"] and a["succ_pushes"] == n, "x86|terminates|%s" % i, db.where(hb, a["line"] if a else term.line),
                 "%s must end the block and push %d successor(s)" % (i, n))
    a = by.get("X86_INS_CALL")
    r.decide(a is None or not a["breaks"], "x86|terminates|CALL", db.where(hb, term.line), "CALL must not end the block")
    d = term.default()
    r.decide(d is not None and not d["breaks"] and d["graph_pushes"] == 1, "x86|terminates|default", db.where(hb, term.line),
             "other mnemonics continue with the next instruction after pushing their graph")
    # every conditional id dispatched to cjmp / loop_ is a terminator and vice versa
    dis = disp.by_id()
    for full_id, arm in sorted(dis.items()):
        hs = [last_seg(h) for h in arm["handlers"]]
        if hs and hs[0] in ("cjmp", "loop_", "jmp", "ret"):
            r.decide(full_id in by and by[full_id]["breaks"], "x86|terminator_of|%s" % full_id[8:], db.where(hb, arm["line"]),
                     "%s is lifted by %s but does not end the block" % (full_id[8:], hs[0]))


def r6(db, rep):
    r = rep.rule("R6", "K4", "operand snapshot, per operand form (REG/MEM/IMM for operands 0 and 1): no operand register or fixed "
                 "register is read after a register that may be the same one was written, except reviewed forms")
    tabs = tables_x86(db)
    names, full = set(), {}
    for mode, rows in tabs.items():
        byid = {last_seg(x["capstone_reg"]): x for x in rows}
        for x in rows:
            names.add(x["name"])
            full.setdefault(last_seg(x["capstone_reg"]), set()).add(byid[last_seg(x["full_reg"])]["name"])

    def canon(i):
        j = i[5:] if i.startswith("full:") else i
        return "named:" + "/".join(sorted(full[j])) if j in full else i

    sh = ilshape.Shape(db)
    names = frozenset(names)
    n = 0
    for h in lifters.handlers_of(db, "x86"):
        nm = last_seg(h)
        if nm in ("rep_prefix", "repne_prefix"):
            continue
        # the decoder fields the handler branches on (operand kinds), discovered from an unconstrained interpretation
        plain = sh.run(h)
        kind_paths = {}
        for pth in plain.discr:
            m_ = re.search(r"operands\[(\d)\]\.type_$", pth)
            if m_:
                kind_paths[int(m_.group(1))] = pth
        nops = 2 if 1 in kind_paths else 1
        forms = list(itertools.product(("REG", "MEM", "IMM"), repeat=nops))
        found = {}
        skipped = 0
        for form in forms:
            f2 = form if len(form) == 2 else form + ("REG",)
            inf = FORM_INFEASIBLE.get(nm)
            if inf and inf[0](f2):
                skipped += 1
                continue
            asm = {("obj", kind_paths[k]): OPT + t for k, t in enumerate(form) if k in kind_paths}
            res = sh.run(h, assume=asm)
            for x in c02.hazards(res, names, canon):
                w, rd, wid, rid = x
                if (nm, last_seg(rd["fn"])) in HAZARD_OK:
                    continue
                # one instance per (operand 0 form, reading operation): a second, different hazard in the same handler is a new key
                k = (form[0], "%s.%s" % (last_seg(rd["fn"]), rd["kind"]))
                found.setdefault(k, (form, x))
        n += 1
        if not found:
            r.ok("x86|%s" % nm, db.where(db.hir[h]), detail={"forms": len(forms) - skipped})
        for (f0, reader), (form, (w, rd, wid, rid)) in sorted(found.items()):
            r.bad("x86|%s|%s|%s" % (nm, f0, reader), db.where(db.hir.get(rd["fn"]) or db.hir[h], rd["line"]),
                  "%s with operands %s writes %s (in %s, line %s) and afterwards reads %s, which may be the same register" % (
                      nm, "/".join(form), short(wid), last_seg(w["fn"]), w["line"], short(rid)))
    r.floor(90, "x86 handlers")


def short(i):
    return re.sub(r"x86reg:[A-Za-z_]+\(param\d\)\.", "", i).replace("named:", "")


CONV = {  # handler -> (written register, [(source register, bit)] per result bit, LSB first)
    "cbw": ("X86_REG_AX", [("AL", i) for i in range(8)] + [("AL", 7)] * 8),
    "cwde": ("X86_REG_EAX", [("AX", i) for i in range(16)] + [("AX", 15)] * 16),
    "cdqe": ("X86_REG_RAX", [("EAX", i) for i in range(32)] + [("EAX", 31)] * 32),
    "cwd": ("X86_REG_DX", [("AX", 15)] * 16),
    "cdq": ("X86_REG_EDX", [("EAX", 31)] * 32),
}
DIVIDEND = {16: [("AX", i) for i in range(16)],
            32: [("AX", i) for i in range(16)] + [("DX", i) for i in range(16)],
            64: [("EAX", i) for i in range(32)] + [("EDX", i) for i in range(32)],
            128: [("RAX", i) for i in range(64)] + [("RDX", i) for i in range(64)]}
DIVRESULT = {16: {("X86_REG_AL", 8), ("X86_REG_AH", 8)}, 32: {("X86_REG_AX", 16), ("X86_REG_DX", 16)},
             64: {("X86_REG_EAX", 32), ("X86_REG_EDX", 32)}, 128: {("X86_REG_RAX", 64), ("X86_REG_RDX", 64)}}


def regbits(bs):
    return None if bs is None else [(b[0][len("reg:X86_REG_"):], b[1]) if isinstance(b, tuple) and str(b[0]).startswith("reg:X86_REG_") else b for b in bs]


def r11(db, rep, runs):
    r = rep.rule("R11", "K9", "implicit operands: CBW/CWDE/CDQE/CWD/CDQ write the architectural register with the sign extension of "
                 "the architectural source (bit provenance); DIV/IDIV take the dividend from ax / dx:ax / edx:eax / rdx:rax for "
                 "the operand width and write quotient and remainder to the matching pair")
    for nm, (dst, want) in sorted(CONV.items()):
        res = runs.get(SEM + nm)
        hb = db.hir.get(SEM + nm)
        rep.anchor(res is not None, "Semantics::%s" % nm)
        sets = [o for o in res.ops if o.get("via") == "X86Register::set"]
        got = regbits(bitprov.bits(sets[0]["src"])) if len(sets) == 1 else None
        ok = len(sets) == 1 and sets[0]["reg"] == dst and got == want
        r.decide(ok, "x86|%s" % nm, db.where(hb), "%s writes %s with %s; the architecture writes %s with %s" % (
            nm, [o["reg"][8:] for o in sets], bitprov.show(got), dst[8:], bitprov.show(want)))
    for nm in ("div", "idiv"):
        res = runs.get(SEM + nm)
        hb = db.hir.get(SEM + nm)
        rep.anchor(res is not None, "Semantics::%s" % nm)
        divs = [o for o in res.ops if o["kind"] == "Assign" and ilshape.is_il(o["src"]) and o["src"][2][0] == "op"
                and o["src"][2][1] in ("Divu", "Divs")]
        alts = []
        if len(divs) == 1:
            d = divs[0]["src"][2][2][0]
            alts = list(d[2][2]) if d[2][0] == "op" and d[2][1].startswith("join#") else [d]
        seen = {}
        for a in alts:
            w = bitprov.width(a)
            if w is not None:
                seen[w] = regbits(bitprov.bits(a))
        for w, want in sorted(DIVIDEND.items()):
            got = seen.get(w)
            r.decide(got == want, "x86|%s|dividend|%d" % (nm, w // 2), db.where(hb, divs[0]["line"]) if divs else db.where(hb),
                     "%s with a %d-bit divisor divides %s; the architecture divides %s" % (nm, w // 2, bitprov.show(got), bitprov.show(want)))
        # results, per arm of the second width match
        by_ctx = {}
        for o in res.ops:
            if o.get("via") == "X86Register::set":
                w = ilshape.wnorm(o["src"][1], {})
                by_ctx.setdefault(o["ctx"], set()).add((o["reg"], w))
        got_sets = sorted(by_ctx.values(), key=lambda s_: sorted(map(str, s_)))
        want_sets = sorted(DIVRESULT.values(), key=lambda s_: sorted(map(str, s_)))
        r.decide(got_sets == want_sets, "x86|%s|results" % nm, db.where(hb),
                 "%s writes %s; the architecture writes al/ah, ax/dx, eax/edx, rax/rdx at the operand width" % (
                     nm, [sorted((a[8:], b) for a, b in s_) for s_ in got_sets]))


WIDTH_KEYED = {"mul": 1, "imul": 1, "cmpxchg": 1, "div": 2, "idiv": 2}     # handler -> arm key / operand width


def r12(db, rep):
    r = rep.rule("R12", "K2", "implicit accumulator registers per operand width: inside the arm for operand width w of MUL/IMUL/DIV/IDIV/"
                 "CMPXCHG only the w-bit members of the a- and d-families are named (al/ah/ax for w = 8)")
    n = 0
    for nm, div in sorted(WIDTH_KEYED.items()):
        hb = db.hir.get(SEM + nm)
        rep.anchor(hb is not None, "Semantics::%s" % nm)
        for m in walk(hb["body"]):
            if m.get("k") != "Match" or m.get("src") != "Normal":
                continue
            sc = m["scrut"]
            unit = 1 if any(x.get("k") == "MethodCall" and x.get("name") == "bits" for x in walk(sc)) else \
                8 if any(x.get("k") == "Field" and x.get("name") == "size" for x in walk(sc)) else None
            if unit is None:
                continue
            for a in m["arms"]:
                k = ilshape.int_pat(a["pat"])
                if k is None:
                    continue
                w = k * unit // div
                regs = sorted({last_seg(x["res"].get("def", ""))[8:] for x in walk(a["body"])
                               if x.get("k") == "Path" and "X86_REG_" in (x.get("res", {}).get("def") or "")})
                if not regs:
                    continue
                bad = []
                for g in regs:
                    fam = family(g)
                    ok = fam is not None and fam[2] in ("AX", "DX") and (fam[0] == w or (w == 8 and g in ("AX", "AH", "AL")))
                    if not ok:
                        bad.append(g)
                n += 1
                r.decide(not bad, "x86|%s|w%d|%s" % (nm, w, "+".join(regs)), db.where(hb, a.get("l", m["l"])),
                         "%s, %d-bit operand: names %s; the architecture uses only the %d-bit a/d registers" % (nm, w, bad, w))
    r.floor(20, "width arms")


# narrowing casts of decoder values that are architecturally exact (reviewed)
CAST_OK = {
}


def r13(db, rep):
    from mirterm import narrowing_casts, terms_of, show as tshow, subterms as tsub
    from db import mir_calls, mir_callee
    r = rep.rule("R13", "K9", "decoder displacements and immediates reach expr_const / Constant::new without passing through an integer "
                 "cast narrower than the decoder's own type (a 64-bit moffs / immediate must not be squeezed through i32)")
    n = 0
    for fn in sorted(k for k in db.mir.keys() if k.startswith("translator::x86::mode::Mode::") and "{closure" not in k):
        body = db.mir[fn]
        tm = terms_of(db, fn, {})
        for i, t in mir_calls(body):
            c = mir_callee(t) or ""
            if c not in ("il::expr_const", "il::constant::Constant::new"):
                continue
            v = tm.operand(t["args"][0])
            bad = []
            for x in tsub(v):
                if isinstance(x, tuple) and x and x[0] == "cast" and len(x) >= 4 and x[3]:
                    frm, to = bits_of_ty(x[3]), bits_of_ty(x[2])
                    src_txt = tshow(x[1])
                    from_decoder = any(isinstance(y, tuple) and y and y[0] == "call" and str(y[1]).startswith("falcon_capstone::") for y in tsub(x[1]))
                    if frm and to and to < frm and from_decoder:
                        bad.append((x[3], x[2], src_txt[:60]))
            n += 1
            key = "%s|%s|%d" % (last_seg(fn), last_seg(c), len([1 for j, _ in mir_calls(body) if j < i and (mir_callee(_) or "") == c]))
            r.decide(not bad, "x86|" + key, db.where(body, t.get("l")),
                     "%s builds a constant from %s narrowed %s -> %s: values that need the full width are truncated" % (
                         last_seg(fn), bad[0][2] if bad else "", bad[0][0] if bad else "", bad[0][1] if bad else ""))
    r.floor(6, "constants built from decoder values in mode.rs")


def bits_of_ty(t):
    m = re.fullmatch(r"[iu](8|16|32|64|128)", t or "")
    if m:
        return int(m.group(1))
    return 64 if t in ("usize", "isize") else None


def r14(db, rep, runs):
    r = rep.rule("R14", "K9", "three-operand carry: the CF of ADC / SBB (a + b + cin, a - b - cin) cannot be a single unsigned "
                 "comparison of operand-width values - for every choice of the two compared values there is an input (one operand "
                 "all ones, carry in set) where it misses the carry; it needs two comparisons, or arithmetic at a wider width")
    for nm in ("adc", "sbb"):
        h = SEM + nm
        res = runs.get(h)
        rep.anchor(res is not None, "Semantics::%s" % nm)
        cfs = [o for o in res.ops if o["kind"] == "Assign" and o.get("dst") == "CF"]
        if len(cfs) != 1:
            r.open("x86|%s|carry" % nm, db.where(db.hir[h]), "CF is not assigned exactly once")
            continue
        e = cfs[0]["src"]
        ops = [x[2][1] for x in subexprs(e) if x[2][0] == "op"]
        ncmp = sum(1 for o in ops if o in ("Cmpltu", "Cmplts"))
        wide = any(o in ("Zext", "Sext") for o in ops)
        single = ilshape.is_il(e) and e[2][0] == "op" and e[2][1] == "Cmpltu" and ncmp == 1 and not wide
        fb = db.hir.get(cfs[0]["fn"]) or db.hir[h]
        if single:
            r.bad("x86|%s|carry" % nm, db.where(fb, cfs[0]["line"]),
                  "%s computes CF as one unsigned comparison %s: the carry/borrow of the three-operand operation is lost when an "
                  "operand is all ones and the carry flag is set" % (nm, ilshape.show_e(e)[:120]))
        elif ncmp >= 2 or wide:
            r.ok("x86|%s|carry" % nm, db.where(fb, cfs[0]["line"]), detail={"comparisons": ncmp, "wide": wide})
        else:
            r.open("x86|%s|carry" % nm, db.where(fb, cfs[0]["line"]), "carry expression of an unrecognised form: %s" % ilshape.show_e(e)[:120])


def run(db, rep, feat, tier):
    rep.explanation = (
        "Static rules over the HIR of lib/translator/x86/**. Register rows are compared with the architectural families; "
        "X86Register::get/set are interpreted abstractly for every row and the resulting IL term is evaluated in a bit-"
        "provenance domain (which source bit reaches which result bit), which decides sub-register composition exactly. "
        "cc_condition is interpreted once per conditional mnemonic and its result compared, as a full truth table over the "
        "five flags, with the SDM condition. Each handler is interpreted (ilshape) and the set of flags it assigns/reads is "
        "compared with the SDM's flags-affected entry; REP/LOOP counters must be the mode's full-width count register. "
        "Handlers are also interpreted once per operand form (REG/MEM/IMM) to check that no register is read after a "
        "possibly-aliasing register was written. Widths, successor exclusivity, entry/exit, progress and the default arm "
        "reuse the C05 rules restricted to x86. Arithmetic values are not decided.")
    runs = c05.shape_runs(db)
    hb, ms = lifters.insn_matches(db, "x86")
    rep.anchor(len(ms) == 2, "x86 dispatch and terminator matches")
    disp, term = ms
    r1(db, rep)
    r2(db, rep, disp)
    r3(db, rep, runs)
    r4(db, rep, runs)
    r5(db, rep, hb, disp, term)
    r6(db, rep)
    r11(db, rep, runs)
    r12(db, rep)
    r13(db, rep)
    r14(db, rep, runs)
    sub = {k: v for k, v in runs.items() if "translator::x86::" in k}
    c05.r2(db, rep, sub, ("x86",), "R7")
    c05.r3(db, rep, sub, ("x86",), "R8")
    c05.r4(db, rep, ("x86",), "R9")
    c05.r5(db, rep, ("x86",), "R10a")
    c05.r6(db, rep, ("x86",), "R10b")


MANIFEST = {
    "technique": "static analysis: table agreement, abstract interpretation of handlers (bit provenance of sub-register composition, truth tables of condition codes, flags-affected signatures, operand read-after-write ordering per operand form, widths)",
    "text": "Decides on every run: register rows equal the architectural families and every sub-register get/set composes the "
            "full register bit-exactly; all 48 Jcc/CMOVcc/SETcc conditions equal the SDM conditions on all 32 flag valuations; "
            "each handler assigns exactly the flags the SDM lists as modified (among CF/ZF/SF/OF/DF); REP/LOOP use the "
            "full-width count register; terminators and successor counts; no register is read after a possibly-aliasing "
            "write in any operand form; no definite width error; exclusive/exhaustive guards; entry/exit; progress. It does "
            "not decide arithmetic values (carry/overflow formulas, shift counts, multiply/divide results, SSE lanes).",
    "note": "Trusted: rustc nightly HIR; ilshape transfer functions; the reference tables in fv/props/c01.py transcribed from the "
            "Intel SDM keyed by capstone enumerators. Known findings: PF is read but never computed; call (r|e)sp reads the "
            "stack pointer after the push.",
}
