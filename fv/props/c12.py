"""C12 — reaching definitions and def-use / use-def chains.

Decided: scalars are matched element-wise (R1), a read is matched against a write and a kill
against a write (R5), chains consult the definitions reaching *before* the location (R2), the two
chain builders are twins (R3), gen/kill/join shape of the reaching-definitions transfer (R4).
Not decided: that the fixed point is the set of definitions that can actually reach (path facts).
"""
from armlib import arm_table, last_seg, main_match
from db import Cfg, callee, mir_callee, mir_calls, walk
from mirterm import bodies_under, calls_in, params_of, show, subterms, terms_of

UD = "analysis::use_def::use_def"
DU = "analysis::def_use::def_use"
RD = "analysis::reaching_definitions"
RFL = "il::location::RefFunctionLocation"
MAP_TY = "HashMap::<il::location::ProgramLocation, analysis::location_set::LocationSet>"


def run(db, rep, feat, tier):
    rep.explanation = (
        "Static rules over HIR/MIR of lib/analysis/{reaching_definitions,use_def,def_use}.rs: every equality on "
        "scalars is instantiated at Scalar/&Scalar (never at a vector of them), compares a read scalar with a "
        "written one (chains) or two written ones (kill); every read of the reaching-definitions map made for a "
        "chain uses a key obtained from backward() (in-state, not the location's own post-state); use_def and "
        "def_use have identical per-variant structure; the transfer function removes killed definitions before "
        "inserting the location and join is a union. Whether the solver's fixed point equals the true reaching "
        "set on every path is not decided.")
    cache = {}
    trans = None
    join = None
    for k, b in db.hir.items():
        if k.startswith("<" + RD) and b.get("impl_trait") == "analysis::fixed_point::FixedPointAnalysis":
            if k.endswith("::trans"):
                trans = k
            if k.endswith("::join"):
                join = k
    rep.anchor(trans and join, "FixedPointAnalysis impl in reaching_definitions.rs")
    for e in (UD, DU):
        rep.anchor(e in db.mir, e)
    r1_r5(db, rep, cache, trans)
    r7(db, rep, trans)
    r2(db, rep, cache)
    r3(db, rep)
    r4(db, rep, cache, trans, join)
    r6b(db, rep, trans)
    r9(db, rep)
    # the chains are built from Operation::scalars_read / scalars_written: those sets must be complete (C10.R2c)
    import props.c10 as c10
    c10.r2c(db, rep, "R8")


def r1_r5(db, rep, cache, trans):
    r1 = rep.rule("R1", "K12", "equality on scalars in the chain / reaching-definition code is instantiated "
                  "element-wise (<&Scalar as PartialEq>::eq), never on Vec/Option<Vec> of scalars")
    r5 = rep.rule("R5", "K9", "each such equality compares a scalar from a read set (scalars_read / edge "
                  "condition scalars) with one from scalars_written in the chain builders, and two written scalars "
                  "in the kill filter")
    roots = [UD, DU, trans]
    for root in roots:
        for d in bodies_under(db, root):
            body = db.mir[d]
            rep.analysed(d)
            tm = None
            n = 0
            for i, t in mir_calls(body):
                if t.get("f") not in ("std::cmp::PartialEq::eq", "std::cmp::PartialEq::ne"):
                    continue
                fg = t.get("fg", "")
                if "il::scalar::Scalar" not in fg:
                    continue
                self_ty = fg[1:fg.index(" as ")] if fg.startswith("<") and " as " in fg else fg
                key = "%s|eq|%d" % (d, n)
                n += 1
                elementwise = self_ty.replace("&", "").strip() == "il::scalar::Scalar"
                r1.decide(elementwise, key, db.where(body, t["l"]),
                          "scalars compared as %s: a whole read/write vector is matched at once" % self_ty,
                          detail={"self": self_ty})
                if not elementwise:
                    continue
                tm = tm or terms_of(db, d, cache)
                a, b = tm.operand(t["args"][0]), tm.operand(t["args"][1])

                def kinds(x):
                    ks = set()
                    for c in calls_in(x):
                        n_ = last_seg(c[1])
                        if n_ == "scalars_written":
                            ks.add("W")
                        if n_ == "scalars_read" or (n_ == "scalars" and any(
                                last_seg(cc[1]) == "condition" for cc in calls_in(c))):
                            ks.add("R")
                    return ks

                ka, kb = kinds(a), kinds(b)
                if root == trans:
                    ok = ka == {"W"} and kb == {"W"}
                    want = "written vs written (kill)"
                else:
                    ok = (ka, kb) in (({"R"}, {"W"}), ({"W"}, {"R"}))
                    want = "read vs written"
                if not ka or not kb:
                    r5.open(key, db.where(body, t["l"]), "operand origins not resolved: %s / %s" % (show(a)[:80], show(b)[:80]))
                else:
                    r5.decide(ok, key, db.where(body, t["l"]),
                              "equality compares %s with %s, expected %s" % (sorted(ka), sorted(kb), want))
    r1.floor(5, "1 kill comparison + 2 in use_def + 2 in def_use")
    # kill quantifier: a definition dies only if *every* scalar it wrote is overwritten
    r6 = rep.rule("R6", "K4", "kill filter: a reaching definition is removed only if all scalars it writes are the "
                  "overwritten scalar (Iterator::all), so a multi-scalar definition stays the last writer of the rest")
    quant = []
    for d in bodies_under(db, trans):
        body = db.mir[d]
        for i, t in mir_calls(body):
            f = t.get("f") or ""
            if f in ("std::iter::Iterator::all", "std::iter::Iterator::any") and "Scalar" in t.get("fg", ""):
                quant.append((last_seg(f), db.where(body, t["l"])))
    rep.anchor(len(quant) >= 1, "a quantifier over written scalars in the kill filter (found %s)" % quant)
    anys = [q for q in quant if q[0] == "any"]
    r6.decide(not anys, "trans|kill_quantifier", (anys or quant)[0][1],
              "a definition is killed as soon as *any* scalar it writes is overwritten")
    # edges and empty blocks define nothing and kill nothing
    hb = db.hir[trans]
    r4b = rep.rule("R4b", "K4", "reaching-definitions transfer: Edge and EmptyBlock locations leave the state unchanged (an edge "
                   "evaluates a guard, it assigns no scalar: dropping or adding definitions there changes what reaches the "
                   "successor block)")
    # on MIR: from the switch on the location kind, the sides taken for Edge / EmptyBlock reach the return without any call
    # that touches the state (whether the function is a match with an empty arm, an if-let or a let-else with early return)
    ks = kind_switch(db, trans)
    found = ks is not None
    if found:
        tcfg, tb, t, ins_bb, others, _gens = ks
        for ob, names in sorted(others.items()):
            region = tcfg.reachable(ob, avoid=[ins_bb]) if ob != ins_bb else set(range(len(tb["blocks"])))
            # nothing at all is called on these sides (the state is handed back as it came)
            effects = [mir_callee(t2) or "?" for i2, t2 in mir_calls(tb) if i2 in region]
            r4b.decide(not effects, "trans|%s|identity" % "+".join(sorted(names)), db.where(tb, t.get("l")),
                       "for %s locations the transfer function changes the state (%s)" % ("/".join(sorted(names)), [last_seg(e) for e in effects][:3]))
    rep.anchor(found, "Edge / EmptyBlock arm of the reaching-definitions transfer function")


def r9(db, rep):
    r = rep.rule("R9", "K7", "the chains list *every* reaching definition that writes the scalar: def_use / use_def iterate the whole "
                 "reaching-definition set (for / for_each / filter), they never select one element of it (find, find_map, position, "
                 "nth, next, take, min, max)")
    SELECT = ("find", "find_map", "position", "rposition", "nth", "take", "min_by", "max_by", "min_by_key", "max_by_key", "min", "max", "last")
    bad = []
    n = 0
    for top in (UD, DU):
        for d in bodies_under(db, top):
            body = db.mir.get(d)
            if body is None:
                continue
            for i, t in mir_calls(body):
                f = t.get("f") or mir_callee(t) or ""
                if f.startswith("std::iter::Iterator::"):
                    n += 1
                    if last_seg(f) in SELECT and "ProgramLocation" in (t.get("fg") or ""):
                        bad.append((d, f, t.get("l"), body))
    for d, f, l, body in bad:
        r.bad("%s|selects_one|%s" % (last_seg(d.split("::{closure")[0]), last_seg(f)), db.where(body, l),
              "%s picks a single reaching definition with Iterator::%s: when a scalar is defined on several paths only one of the "
              "definitions enters the chain" % (last_seg(d.split("::{closure")[0]), last_seg(f)))
    if not bad:
        r.ok("chains|iterate_all", "", detail={"iterator_calls": n})


def r6b(db, rep, trans):
    from mirterm import bodies_under
    r = rep.rule("R6b", "K7", "kill is decided on the written scalars alone: the transfer function and its closures do not ask what "
                 "kind of operation a reaching definition is (a Load or an intrinsic is superseded by a later write exactly like "
                 "an Assign)")
    bad = []
    for fn in bodies_under(db, immediate_trans(trans)):
        body = db.mir.get(fn)
        if body is None:
            continue
        for i, t in mir_calls(body):
            c = mir_callee(t) or ""
            if c.startswith("il::operation::Operation::is_"):
                bad.append((fn, c, t.get("l"), body))
    r.decide(not bad, "trans|kind_independent", db.where(bad[0][3], bad[0][2]) if bad else db.where(db.mir[immediate_trans(trans)]),
             "the kill step calls %s: definitions of other kinds are never killed and stay reported as last writers" % (
                 last_seg(bad[0][1]) if bad else ""))


def immediate_trans(trans):
    return trans


def kind_switch(db, trans):
    """The transfer function's decision on the kind of location, on MIR: (cfg, body, instruction-side block, {other-side
    block: [variant names]}, gen-call blocks on the instruction side), or None.  The gen calls are the calls of the body that
    insert into the state, directly or inside a closure they are handed."""
    from armlib import variants_of
    tb = db.mir[trans]
    ttm = terms_of(db, trans, {})
    tcfg = Cfg(tb)
    vs = [last_seg(v) for v, _ in (variants_of(db, "il::location::RefFunctionLocation") or [])]
    if "Instruction" not in vs:
        return None
    inserting = set()
    for d in bodies_under(db, trans):
        if d != trans and any(last_seg(mir_callee(t) or "") in ("insert", "remove") and "LocationSet" in (mir_callee(t) or "")
                              for i, t in mir_calls(db.mir[d])):
            inserting.add(d)
    # closures nest: a closure that creates an inserting closure inserts too
    changed = True
    while changed:
        changed = False
        for d in bodies_under(db, trans):
            if d in inserting or d == trans:
                continue
            if any(x in str(db.mir[d]["blocks"]) for x in inserting):
                inserting.add(d)
                changed = True
    for j, bb in enumerate(tb["blocks"]):
        t = bb["t"]
        if t["k"] != "SwitchInt":
            continue
        d = ttm.operand(t["discr"])
        if d[0] != "discr" or not any(last_seg(c[1]) == "function_location" for c in calls_in(d)):
            continue
        tg = dict((v_, b_) for v_, b_ in t["targets"])
        ins_bb = tg.get(vs.index("Instruction"), t.get("otherwise"))
        others = {}
        for nm in vs:
            if nm != "Instruction":
                others.setdefault(tg.get(vs.index(nm), t.get("otherwise")), []).append(nm)
        gens = []
        for i2, t2 in mir_calls(tb):
            if i2 not in tcfg.reachable(ins_bb, avoid=[o for o in others if o != ins_bb]):
                continue
            c2 = mir_callee(t2) or ""
            direct = last_seg(c2) in ("insert", "remove") and "LocationSet" in c2
            via = any(isinstance(x, tuple) and x and x[0] == "closure" and x[1] in inserting
                      for a_ in t2["args"] for x in subterms(ttm.operand(a_)))
            if direct or via:
                gens.append(i2)
        return tcfg, tb, t, ins_bb, others, gens
    return None


def r7(db, rep, trans):
    r = rep.rule("R7", "K12", "the chain builders and the transfer function take no decision on the identity of "
                 "locations or on the incoming state: the only equalities are on scalars, and the transfer function "
                 "has no early return (every instruction kills and generates unconditionally)")
    for root in (UD, DU, trans):
        bad = []
        for d in bodies_under(db, root):
            body = db.mir[d]
            for i, t in mir_calls(body):
                f = t.get("f") or ""
                fg = t.get("fg", "")
                if f in ("std::cmp::PartialEq::eq", "std::cmp::PartialEq::ne") and (
                        "ProgramLocation" in fg or "FunctionLocation" in fg or "LocationSet" in fg):
                    bad.append((db.where(body, t["l"]), fg))
                if root == trans and last_seg(f) == "contains" and ("LocationSet" in fg or "HashSet" in fg):
                    bad.append((db.where(body, t["l"]), fg))
        r.decide(not bad, "%s|only_scalar_equalities" % root, bad[0][0] if bad else db.where(db.mir[root]),
                 "decision on location identity / incoming state: %s" % (bad[0][1] if bad else ""))
    ks = kind_switch(db, trans)
    rep.anchor(ks is not None, "the transfer function's switch on the kind of location")
    tcfg, tb, sw_t, ins_bb, others, gens = ks
    # for an instruction, no path reaches the return without the kill/gen step (returning the state unchanged for edges and
    # empty blocks is not an early return in this sense)
    leak = [x for x in tcfg.reachable(ins_bb, avoid=gens) if tb["blocks"][x]["t"]["k"] == "Return"] if ins_bb not in others else [ins_bb]
    r.decide(bool(gens) and not leak, "trans|no_early_return", db.where(tb, sw_t.get("l")),
             "the transfer function returns early on some incoming states")


def r2(db, rep, cache):
    r = rep.rule("R2", "K9", "every read of the reaching-definitions map made while building a chain uses a key "
                 "derived from RefProgramLocation::backward() (definitions reaching before the location executes); "
                 "both chain builders reach such a read")
    import panics
    g = panics.call_graph(db)
    for root in (UD, DU):
        reach = g.reach([root], stop=())
        scope = [f for f in reach if f.startswith(("analysis::use_def", "analysis::def_use", RD + "::reaching_definitions_in"))
                 or (f.startswith(RD) and "FixedPoint" not in f and not f.endswith("::reaching_definitions")
                     and "ReachingDefinitionsAnalysis" not in f)]
        nreads = 0
        for d in sorted(scope):
            body = db.mir[d]
            tm = None
            n = 0
            for i, t in mir_calls(body):
                fg = t.get("fg", "")
                if MAP_TY not in fg and not ("Index" in (t.get("f") or "") and "ProgramLocation" in fg and "LocationSet" in fg):
                    continue
                f = t.get("f") or ""
                if not (f.endswith("::get") or f.endswith("Index::index") or f.endswith("::get_mut")):
                    continue
                # only maps of reaching definitions: the du/ud output maps are written with entry()/insert()
                tm = tm or terms_of(db, d, cache)
                key_t = tm.operand(t["args"][1])
                derived = any(last_seg(c[1]) == "backward" for c in calls_in(key_t))
                nreads += 1
                r.decide(derived, "%s|%s|rdread|%d" % (root, d, n), db.where(body, t["l"]),
                         "reaching definitions are read at a key not derived from backward(): %s (post-state of the "
                         "location itself; an instruction that reads and writes one scalar defines itself)"
                         % show(key_t)[:120])
                n += 1
        if nreads == 0:
            r.bad("%s|consults" % root, db.where(db.mir[root]), "chain builder never reads the reaching definitions")
    r.floor(2, "one in-state read reachable from each chain builder")
    # the helper computing the in-state yields Ok only after consulting backward(): no shortcut for special locations
    helper = RD + "::reaching_definitions_in"
    if helper in db.mir:
        body = db.mir[helper]
        cfg = Cfg(body)
        bw = [i for i, t in mir_calls(body) if last_seg(mir_callee(t) or "") == "backward"]
        oks = []
        for i, b in enumerate(body["blocks"]):
            for s in b["s"]:
                rv = s.get("rv")
                if rv and rv["k"] == "Aggregate" and rv.get("variant") == "std::prelude::v1::Ok" and s["d"] == [0]:
                    oks.append(i)
        good = bool(bw) and bool(oks) and all(any(cfg.dominates(b_, o) for b_ in bw) for o in oks)
        r.decide(good, "in_state|unconditional", db.where(body),
                 "reaching_definitions_in returns a result on a path that never consulted backward() (a shortcut for "
                 "some location: definitions carried around a loop into that location are lost)")


def r3(db, rep):
    r = rep.rule("R3", "K5", "use_def and def_use are twins: per RefFunctionLocation variant they call the same "
                 "il:: accessors (scalars_read / scalars_written / condition / scalars)")
    tabs = {}
    for fn in (UD, DU):
        b = db.hir[fn]
        rep.analysed(fn)
        m = main_match(b, RFL)
        rep.anchor(m is not None, "match over RefFunctionLocation in %s" % fn)
        t = {}
        for a in arm_table(m):
            cs = {c for c in a.callees() if c.startswith("il::") and last_seg(c) in (
                "scalars_read", "scalars_written", "condition", "scalars", "operation", "instruction", "apply")}
            for v in a.variants:
                t[last_seg(v)] = cs
        tabs[fn] = t
    for v in ("Instruction", "Edge", "EmptyBlock"):
        a, b_ = tabs[UD].get(v), tabs[DU].get(v)
        if a is None or b_ is None:
            r.bad("twin|%s" % v, "", "variant %s not handled by both chain builders" % v)
            continue
        r.decide(a == b_, "twin|%s" % v, db.where(db.hir[UD]),
                 "use_def and def_use disagree on %s: %s vs %s" % (v, sorted(a - b_), sorted(b_ - a)))
    # Instruction reads scalars_read, Edge reads its condition's scalars
    need = {"Instruction": {"scalars_read", "scalars_written"}, "Edge": {"condition", "scalars", "scalars_written"}}
    for fn in (UD, DU):
        for v, want in need.items():
            have = {last_seg(c) for c in tabs[fn].get(v, ())}
            r.decide(want <= have, "%s|%s|reads" % (fn, v), db.where(db.hir[fn]),
                     "%s arm of %s does not consult %s" % (v, last_seg(fn), sorted(want - have)))


def r4(db, rep, cache, trans, join):
    r = rep.rule("R4", "K4", "reaching-definitions transfer: definitions killed by a written scalar are removed "
                 "before the location is inserted (gen after kill), only Instruction locations generate, and join "
                 "inserts every location of the second state into the first and returns it (union)")
    # --- trans
    found_remove = found_insert = False
    order_ok = None
    for d in bodies_under(db, trans):
        body = db.mir[d]
        rep.analysed(d)
        cfg = Cfg(body)
        ins = [i for i, t in mir_calls(body) if mir_callee(t) == "analysis::location_set::LocationSet::insert"]
        # remove may sit in a nested closure created in this body
        rem_here = [i for i, t in mir_calls(body) if mir_callee(t) == "analysis::location_set::LocationSet::remove"]
        if rem_here:
            found_remove = True
        if ins:
            found_insert = True
            tm = terms_of(db, d, cache)
            for i in ins:
                arg = tm.operand(body["blocks"][i]["t"]["args"][1])
                # inserted location derives from the `location` parameter of trans (param 2)
                gen_ok = 2 in params_of(arg)
                r.decide(gen_ok, "trans|gen", db.where(body, body["blocks"][i]["t"]["l"]),
                         "the generated definition is not the transferred location: %s" % show(arg)[:100])
                # the kill (for_each over `kill` that calls remove) precedes the insert: some call taking a closure
                # whose body calls remove dominates the insert
                killers = []
                for j, t in mir_calls(body):
                    for a in t["args"]:
                        pl = a.get("m") or a.get("c")
                        if pl:
                            tt = tm.local(pl[0])
                            if tt[0] == "closure":
                                cb = db.mir.get(tt[1])
                                if cb and any(mir_callee(ct) == "analysis::location_set::LocationSet::remove"
                                              for _j, ct in mir_calls(cb)):
                                    killers.append(j)
                                    found_remove = True
                killers += rem_here
                order_ok = bool(killers) and all(cfg.dominates(k, i) for k in killers)
    r.decide(found_remove and found_insert, "trans|kill+gen", db.where(db.mir[trans]),
             "transfer function must both remove killed definitions and insert the location")
    if order_ok is not None:
        r.decide(order_ok, "trans|order", db.where(db.mir[trans]), "kill must precede gen")
    # only Instruction arm generates
    ks = kind_switch(db, trans)
    rep.anchor(ks is not None, "the transfer function's switch on the kind of location")
    tcfg, tb, sw_t, ins_bb, others, gens = ks
    r.decide(bool(gens), "trans|arm|Instruction", db.where(tb, sw_t.get("l")), "Instruction arm must kill/gen")
    for ob, names in sorted(others.items()):
        region = tcfg.reachable(ob, avoid=[ins_bb]) if ob != ins_bb else set(range(len(tb["blocks"])))
        touched = [i2 for i2, t2 in mir_calls(tb) if i2 in region]
        for v in names:
            r.decide(not touched, "trans|arm|" + v, db.where(tb, sw_t.get("l")), "%s locations define nothing" % v)
    # --- join
    jb = db.mir[join]
    rep.analysed(join)
    tm = terms_of(db, join, cache)
    ret = tm.local(0)
    ok_ret = any(s == ("param", 2) for s in subterms(ret)) and not any(s == ("param", 3) for s in subterms(ret))
    union = False
    for d in bodies_under(db, join):
        body = db.mir[d]
        ctm = terms_of(db, d, cache)
        for i, t in mir_calls(body):
            if mir_callee(t) == "analysis::location_set::LocationSet::insert":
                tgt, val = ctm.operand(t["args"][0]), ctm.operand(t["args"][1])
                if 2 in params_of(tgt) and 3 in params_of(val):
                    union = True
    r.decide(ok_ret and union, "join|union", db.where(jb),
             "join must insert state1's locations into state0 and return state0 (ret=%s)" % show(ret)[:80])


MANIFEST = {
    "technique": "static analysis: generic-instantiation and def-use origin rules on MIR, twin agreement on HIR",
    "text": "Decides, from the MIR/HIR of the current tree, that scalar matching in reaching definitions and the two "
            "chain builders is element-wise and read-vs-written, that chains consult the definitions reaching before the "
            "location (keys derived from backward()), that use_def and def_use are structural twins, and the "
            "kill-before-gen / union shape of the transfer and join. These are necessary conditions of 'the chain "
            "contains the last writer of every scalar read'; it does not decide that the fixed point equals the "
            "path-sensitive reaching set.",
    "note": "Trusted: rustc nightly HIR/MIR; resolved callee names of falcon's public IL accessors (scalars_read, "
            "scalars_written, condition, scalars, backward). The solver itself is covered by C09.",
}
