"""C19 — ELF loading.

Decided: rebase units (R1): every address that leaves the loader (symbols, function entries, program entry,
segment addresses, relocation targets and relocated values, linker symbol map) combines raw ELF fields with
the base address exactly once, and the internal de-duplication map is keyed consistently; flag, type and
machine tables (R2); the two symbol loops use the same filter (R3); segment bytes = file range + zero fill
(R4). Not decided: the loaded bytes themselves, relocation arithmetic beyond units.
"""
from armlib import arm_table, last_seg, main_match, unq
from db import callee, int_lit, strip, walk

RAW_FIELDS = {"st_value", "e_entry", "p_vaddr", "r_offset", "sh_addr", "d_val", "r_addend"}
FILES = ("loader/elf/elf.rs", "loader/elf/elf_linker.rs")


class Units:
    """Expression-level rebase count over HIR with let-bound locals resolved (flow-insensitive, per function)."""

    def __init__(self, body):
        self.body = body
        self.lets = {}
        for n in walk(body["body"]):
            for s in n.get("stmts", ()) or ():
                if s.get("k") == "Let" and s["pat"].get("k") == "Bind" and "init" in s:
                    self.lets.setdefault(s["pat"]["hid"], []).append(s["init"])
            if n.get("k") == "Match":
                # `let value = match self.symbols.get(..) { Some(v) => v.to_owned() as u32, .. }` handled through arms
                pass

    def count(self, e, depth=0, seen=None):
        """(raw fields mentioned, number of base additions / already-rebased getters, mentions linker symbol map)"""
        from db import children
        seen = seen if seen is not None else set()
        raw, symmap = set(), [False]
        k = [0]
        if depth > 6:
            return raw, 0, False

        def visit(n):
            kd = n.get("k")
            if kd == "Field" and n["name"] in RAW_FIELDS:
                raw.add(n["name"])
            if kd == "Field" and n["name"] == "base_address":
                k[0] += 1
            if kd == "MethodCall":
                m = n.get("m", "")
                if last_seg(m) in ("get32", "get8", "get") and "memory::backing" in m:
                    # a word read from memory is a raw value; the address it was read at is not part of its unit
                    raw.add("<memory word>")
                    return
                if last_seg(m) == "base_address":
                    k[0] += 1
                if n["name"] == "address" and ("Symbol" in m or "FunctionEntry" in m):
                    raw.add("<rebased getter>")
                    k[0] += 1
                if n["name"] == "get" and "symbols" in [x.get("name") for x in walk(n["recv"]) if x.get("k") == "Field"]:
                    symmap[0] = True
                if last_seg(m) == "program_entry":
                    raw.add("<program_entry()>")
                    k[0] += 1
            if kd == "Path" and "local" in n.get("res", {}):
                hid = n["res"]["hid"]
                if hid in self.lets and hid not in seen:
                    seen.add(hid)
                    for init in self.lets[hid]:
                        r2, k2, s2 = self.count(init, depth + 1, seen)
                        raw.update(r2)
                        k[0] += k2
                        symmap[0] = symmap[0] or s2
            if kd == "MethodCall" and n["name"] in ("ok_or", "ok_or_else", "expect", "map_err", "unwrap_or_else"):
                visit(n["recv"])  # the error/fallback message may mention the address; it is not part of the value
                return
            for c in children(n):
                visit(c)

        visit(e)
        return raw, k[0], symmap[0]


def run(db, rep, feat, tier):
    rep.explanation = (
        "Static rules over the HIR of lib/loader/elf/{elf,elf_linker}.rs: a units analysis counts, for every address "
        "expression reaching a sink (Symbol::new, FunctionEntry::new, set_memory, get32/set32 address and value, the "
        "return of program_entry, the linker's symbol map), how many times the base address is added to raw ELF fields "
        "(st_value, e_entry, p_vaddr, r_offset, ...) or to values that are already rebased (Symbol::address of a loaded "
        "Elf): it must be exactly once; keys of the function-entry map must all be raw; PF_R/W/X map to READ/WRITE/"
        "EXECUTE; only PT_LOAD segments reach set_memory; machine and endianness select the architecture; the dynamic "
        "and static symbol loops filter identically; segment bytes are the file range p_offset..+p_filesz extended by "
        "p_memsz - p_filesz zeros. The loaded byte contents and relocation arithmetic are not decided.")
    r1(db, rep)
    r2(db, rep)
    r3(db, rep)
    r4(db, rep)
    r9(db, rep)
    # segments are placed with backing::Memory::set_memory: its overlap handling must not lose a neighbouring segment
    import props.c16 as c16
    before = len(rep.rules)
    c16.r8(db, rep)
    c16.r5(db, rep)
    for rr in rep.rules[before:]:
        rr.id = "R5." + rr.id
        for i in rr.instances:
            i["key"] = "R5." + i["key"]
            i["rule"] = rr.id


def sink_args(n):
    """(sink kind, [(role, expr)]) for a HIR call node, or None."""
    c = callee(n) or ""
    k = n.get("k")
    if k == "Call" and c in ("loader::symbol::Symbol::new", "loader::Symbol::new") or (k == "Call" and c.endswith("Symbol::new") and c.startswith("loader")):
        return "Symbol::new", [("address", n["args"][1])]
    if k == "Call" and c.endswith("FunctionEntry::new") and c.startswith("loader"):
        return "FunctionEntry::new", [("address", n["args"][0])]
    if k == "MethodCall" and last_seg(c) == "set_memory" and "backing" in c:
        return "set_memory", [("address", n["args"][0])]
    if k == "MethodCall" and last_seg(c) == "set32" and "backing" in c:
        return "set32", [("address", n["args"][0]), ("value", n["args"][1])]
    if k == "MethodCall" and last_seg(c) == "get32" and "backing" in c:
        return "get32", [("address", n["args"][0])]
    return None


def r1(db, rep):
    r = rep.rule("R1", "K9", "rebase units: every address handed to Symbol::new / FunctionEntry::new / set_memory / "
                 "get32 / set32, returned by program_entry, or stored in the linker's symbol map adds the base address "
                 "exactly once to raw ELF fields (never zero times, never to an already rebased value); the keys of the "
                 "function-entry de-duplication map are all raw")
    n = 0
    for f in FILES:
        for d in db.hir.in_file(f):
            hb = db.hir[d]
            if "::tests" in d:
                continue
            u = Units(hb)
            rep.analysed(d)
            cnt = {}
            for x in walk(hb["body"]):
                sk = sink_args(x)
                if sk:
                    kind, args = sk
                    for role, e in args:
                        raw, k, symmap = u.count(e)
                        idx = cnt.get((kind, role), 0)
                        cnt[(kind, role)] = idx + 1
                        key = "%s|%s.%s|%d" % (d, kind, role, idx)
                        where = db.where(hb, x["l"])
                        if role == "value":
                            # a relocated word: from the (rebased) linker symbol map, or raw + base exactly once
                            if symmap and not (raw - {"<rebased getter>"}):
                                r.ok(key, where, detail={"source": "linker symbol map"})
                            elif raw:
                                r.decide(k == 1, key, where, "relocated value built from raw %s with the base added %d times" % (sorted(raw), k))
                            elif k == 1:
                                r.ok(key, where, detail={"source": "memory word + base (relative relocation)"})
                            else:
                                r.open(key, where, "origin of the relocated value not resolved")
                            n += 1
                            continue
                        if raw or k:
                            n += 1
                            r.decide(k == 1, key, where,
                                     "address built from %s with the base address added %d times (must be exactly once)" % (sorted(raw) or "?", k))
                        else:
                            # neither raw field nor base: a parameter / already computed address
                            r.open(key, where, "address of unknown provenance")
                # linker symbol map: insert(name, address)
                if x.get("k") == "MethodCall" and x["name"] == "insert" and len(x["args"]) == 2:
                    fields = [y.get("name") for y in walk(x["recv"]) if y.get("k") == "Field"]
                    if "symbols" in fields:
                        raw, k, _ = u.count(x["args"][1])
                        n += 1
                        r.decide(k == 1, "%s|symbols.insert" % d, db.where(hb, x["l"]),
                                 "linker symbol map receives an address rebased %d times (%s)" % (k, sorted(raw)))
                    if "function_entries" in [y["res"].get("local") for y in walk(x["recv"]) if y.get("k") == "Path" and "local" in y.get("res", {})]:
                        raw, k, _ = u.count(x["args"][0])
                        n += 1
                        r.decide(k == 0, "%s|function_entries.key|%d" % (d, cnt.get("fek", 0)), db.where(hb, x["l"]),
                                 "de-duplication key is a rebased address while the other keys are raw")
                        cnt["fek"] = cnt.get("fek", 0) + 1
                if x.get("k") == "MethodCall" and x["name"] in ("entry", "contains_key") and x["args"]:
                    if "function_entries" in [y["res"].get("local") for y in walk(x["recv"]) if y.get("k") == "Path" and "local" in y.get("res", {})]:
                        raw, k, _ = u.count(x["args"][0])
                        n += 1
                        r.decide(k == 0, "%s|function_entries.key|%d" % (d, cnt.get("fek", 0)), db.where(hb, x["l"]),
                                 "de-duplication key is a rebased address while the other keys are raw")
                        cnt["fek"] = cnt.get("fek", 0) + 1
            if last_seg(d) == "program_entry" and hb.get("impl_self", "").endswith("elf::Elf"):
                raw, k, _ = u.count(hb["body"])
                n += 1
                r.decide(k == 1 and "e_entry" in raw, "%s|return" % d, db.where(hb),
                         "program_entry returns e_entry with the base added %d times" % k)
    r.floor(14, "address sinks in the ELF loader and linker")     # 20 on the pinned tree


def r2(db, rep):
    r = rep.rule("R2", "K2", "segment flag and type tables: PF_R -> READ, PF_W -> WRITE, PF_X -> EXECUTE; only PT_LOAD "
                 "program headers reach set_memory")
    fn = "<loader::elf::elf::Elf as loader::Loader>::memory"
    hb = db.hir.get(fn)
    rep.anchor(hb is not None, fn)
    rep.analysed(fn)
    want = {"PF_R": "READ", "PF_W": "WRITE", "PF_X": "EXECUTE"}
    got = {}
    PERMS = ("READ", "WRITE", "EXECUTE", "NONE", "ALL")

    def pf_of(n):
        return [last_seg(x["res"].get("def", "")) for x in walk(n) if x.get("k") == "Path" and last_seg(x["res"].get("def", "") or "").startswith("PF_")]

    def perm_of(n):
        return [last_seg(x["res"].get("def", "")) for x in walk(n) if x.get("k") == "Path" and last_seg(x["res"].get("def", "") or "") in PERMS]

    def is_ptload_test(c, op="Eq"):
        c = unq(c)
        return c.get("k") == "Binary" and c.get("op") == op and any(last_seg(x["res"].get("def", "") or "") == "PT_LOAD" for x in walk(c) if x.get("k") == "Path") \
            and any(x.get("k") == "Field" and x.get("name") == "p_type" for x in walk(c))

    # form 1: `if flags & PF_x != 0 { permissions |= Y }`; form 2: a table of (PF_x, Y) pairs selected by `flags & flag != 0`
    for n in walk(hb["body"]):
        if n.get("k") == "If":
            flag, perm = pf_of(n["c"]), perm_of(n["then"])
            if len(flag) == 1:
                got[flag[0]] = perm
    if not got:
        masked = any(x.get("k") == "Binary" and x.get("op") == "BitAnd" and any(y.get("k") == "Field" and y.get("name") == "p_flags" for y in walk(x))
                     for x in walk(hb["body"]))
        for n in walk(hb["body"]):
            if n.get("k") == "Tup" and len(n.get("es", [])) == 2 and len(pf_of(n["es"][0])) == 1 and masked:
                got[pf_of(n["es"][0])[0]] = perm_of(n["es"][1])
    for f, p in want.items():
        r.decide(got.get(f) == [p], "memory|%s" % f, db.where(hb), "%s maps to %s, expected %s" % (f, got.get(f), p))
    # only PT_LOAD headers reach set_memory, and every one does: either the mapping code sits in `if p_type == PT_LOAD {..}`, or the
    # loop runs over headers filtered by that test
    total = sum(1 for x in walk(hb["body"]) if last_seg(callee(x) or "") == "set_memory")
    ptload = False
    skip = None
    for n in walk(hb["body"]):
        if n.get("k") == "If" and is_ptload_test(n["c"]):
            inside = any(last_seg(callee(x) or "") == "set_memory" for x in walk(n["then"]))
            ptload = inside and total == 1
            for x in walk(n["then"]):
                if x.get("k") in ("Continue", "Break"):
                    skip = x
    if not ptload:
        for n in walk(hb["body"]):
            if n.get("k") == "Match" and n.get("src") == "For":
                filt = [x for x in walk(n["scrut"]) if x.get("k") == "MethodCall" and x["name"] == "filter" and x["args"] and
                        x["args"][0].get("k") == "Closure" and is_ptload_test(x["args"][0]["body"])]
                inside = any(last_seg(callee(x) or "") == "set_memory" for a_ in n["arms"] for x in walk(a_["body"]))
                if filt and inside and total == 1:
                    ptload = True
                    for a_ in n["arms"]:
                        for x in walk(a_["body"]):
                            if x.get("k") in ("Continue", "Break") and x.get("mac") is None:
                                skip = x
    r.decide(ptload, "memory|PT_LOAD_only", db.where(hb), "set_memory must be called only under p_type == PT_LOAD")
    r.decide(skip is None, "memory|every_PT_LOAD_mapped", db.where(hb, skip["l"]) if skip else db.where(hb),
             "a PT_LOAD segment can be skipped (continue/break inside the PT_LOAD branch): e.g. a segment with p_filesz == 0 and "
             "p_memsz > 0 (.bss only) must still be mapped as zeros with its permissions")
    import props.c20 as c20
    before = len(rep.rules)
    c20.r5(db, rep)
    for rr in rep.rules[before:]:
        rr.id = "R2." + rr.id
        for i in rr.instances:
            i["key"] = "R2." + i["key"]
            i["rule"] = rr.id


def lin(t, atoms):
    """Linear form {atom index: coefficient} of a term built with +/- over the given atom terms; None if not of that form."""
    from mirterm import strip_overflow
    t = strip_overflow(t)
    for k, a in enumerate(atoms):
        if t == a:
            return {k: 1}
    if isinstance(t, tuple) and t and t[0] == "bin" and t[1] in ("Add", "Sub", "AddWithOverflow", "SubWithOverflow", "AddUnchecked", "SubUnchecked"):
        a, b = lin(t[2], atoms), lin(t[3], atoms)
        if a is None or b is None:
            return None
        sign = 1 if t[1].startswith("Add") else -1
        out = dict(a)
        for k, v in b.items():
            out[k] = out.get(k, 0) + sign * v
        return {k: v for k, v in out.items() if v}
    if isinstance(t, tuple) and t and t[0] == "cast":
        return lin(t[1], atoms)
    return None


def r9(db, rep):
    from mirterm import terms_of
    from db import mir_calls, mir_callee
    r = rep.rule("R9", "K5", "MIPS GOT: the pass that adds the base address covers every GOT word the per-symbol pass may leave "
                 "untouched - its range is 0 .. local_gotno + (symtabno - gotsym) where gotsym .. symtabno is the range of the "
                 "per-symbol pass and local_gotno its first slot")
    fn = "loader::elf::elf_linker::ElfLinker::relocations_mips"
    body = db.mir.get(fn)
    rep.anchor(body is not None, fn)
    tm = terms_of(db, fn, {})
    ranges = []
    for i, b in enumerate(body["blocks"]):
        for s_ in b["s"]:
            rv = s_.get("rv", {})
            if rv.get("k") == "Aggregate" and str(rv.get("variant", "")).endswith("ops::Range") and len(rv.get("ops", ())) == 2:
                ranges.append((s_["l"], tm.operand(rv["ops"][0]), tm.operand(rv["ops"][1])))
    ranges.sort(key=lambda x: x[0])
    rep.anchor(len(ranges) >= 2, "the two GOT passes of relocations_mips")
    (l1, s1, e1), (l2, s2, e2) = ranges[0], ranges[1]
    # local_gotno: the dynamic entry read with the DT_MIPS_LOCAL_GOTNO tag, recognised as the remaining atom of e1
    from mirterm import subterms as tsub, strip_overflow
    atoms = [e2, s2]
    cand = [x for x in tsub(e1) if isinstance(x, tuple) and x and x[0] == "field" and x not in atoms and lin(x, atoms) is None
            and any(isinstance(y, tuple) and y and y[0] == "call" and str(y[1]).endswith("get_dynamic") for y in tsub(x))]
    ok = False
    why = "range end %s" % "?"
    for c in cand:
        f = lin(e1, [e2, s2, c])
        if f == {0: 1, 1: -1, 2: 1}:
            ok = True
    r.decide(s1 == ("const", 0) and ok, "mips_got|rebase_pass_covers_symbol_pass", db.where(body, l1),
             "the base-address pass does not cover local_gotno + (symtabno - gotsym) GOT words: global entries of symbols the object "
             "defines itself keep their link-time value")


def r3(db, rep):
    r = rep.rule("R3", "K5", "function_entries: the dynamic-symbol loop and the static-symbol loop apply the same filter "
                 "(is_function, st_value != 0, st_shndx > 0) and build entries the same way")
    fn = "<loader::elf::elf::Elf as loader::Loader>::function_entries"
    hb = db.hir.get(fn)
    rep.anchor(hb is not None, fn)
    rep.analysed(fn)
    filt = []
    for n in walk(hb["body"]):
        if n.get("k") == "If":
            fields = sorted(x["name"] for x in walk(n["c"]) if x.get("k") == "Field" and x["name"].startswith("st_"))
            calls_ = sorted(x["name"] for x in walk(n["c"]) if x.get("k") == "MethodCall")
            ops = sorted(x.get("op") for x in walk(n["c"]) if x.get("k") == "Binary")
            lits = sorted(str(int_lit(x)) for x in walk(n["c"]) if x.get("k") == "Lit")
            if "is_function" in calls_:
                filt.append((fields, calls_, ops, lits))
    rep.anchor(len(filt) == 2, "two symbol loops with an is_function filter (found %d)" % len(filt))
    r.decide(filt[0] == filt[1], "function_entries|same_filter", db.where(hb), "filters differ: %s vs %s" % (filt[0], filt[1]))
    r.decide(filt[0][0] == ["st_shndx", "st_value"] and "is_function" in filt[0][1], "function_entries|filter_terms", db.where(hb),
             "filter must test is_function, st_value and st_shndx (got %s)" % (filt[0],))


def r4(db, rep):
    r = rep.rule("R4", "K4", "memory(): the bytes of a segment are the file range p_offset .. p_offset + p_filesz, "
                 "extended by p_memsz - p_filesz zero bytes, placed at p_vaddr + base with the segment's permissions")
    fn = "<loader::elf::elf::Elf as loader::Loader>::memory"
    hb = db.hir[fn]
    fields = [x["name"] for x in walk(hb["body"]) if x.get("k") == "Field" and x["name"].startswith("p_")]
    rng = False
    fill = False
    for n in walk(hb["body"]):
        if n.get("k") == "Struct" and last_seg(n["path"].get("def", "") or "") in ("Range",):
            fs = {f["n"]: [x["name"] for x in walk(f["e"]) if x.get("k") == "Field"] for f in n["fields"]}
            rng = fs.get("start") == ["p_offset"] and sorted(fs.get("end", [])) == ["p_filesz", "p_offset"]
        if n.get("k") == "Binary" and n.get("op") == "Sub":
            a = [x["name"] for x in walk(n["a"]) if x.get("k") == "Field"]
            b = [x["name"] for x in walk(n["b"]) if x.get("k") == "Field"]
            if a == ["p_memsz"] and b == ["p_filesz"]:
                fill = True
    # placement: the address handed to set_memory is built from the segment's virtual address (p_vaddr), not from the physical
    # address or any other header field (kernel/firmware images have p_paddr != p_vaddr)
    u = Units(hb)
    placed = []
    for x in walk(hb["body"]):
        sk = sink_args(x)
        if sk and sk[0] == "set_memory":
            for role, e in sk[1]:
                if role == "address":
                    placed.append(sorted(u.count(e)[0]) + sorted(
                        {y["name"] for y in walk(e) if y.get("k") == "Field" and y["name"].startswith("p_")} - {"p_vaddr"}))
    rep.anchor(bool(placed), "set_memory call with an address argument in Elf::memory")
    if any(not pl for pl in placed):
        r.open("memory|placement", db.where(hb), "origin of the placement address not resolved")
    else:
        r.decide(all(pl == ["p_vaddr"] for pl in placed), "memory|placement", db.where(hb),
                 "segment must be placed at p_vaddr + base; the address is built from %s" % placed)
    r.decide(rng, "memory|file_range", db.where(hb), "segment bytes must be bytes[p_offset .. p_offset + p_filesz]")
    r.decide(fill, "memory|zero_fill", db.where(hb), "zero fill must be p_memsz - p_filesz bytes")


MANIFEST = {
    "technique": "static analysis: rebase-unit counting over HIR address expressions (raw ELF fields x base additions) at every sink, table and twin-loop agreement",
    "text": "Decides on every run that all addresses leaving the ELF loader and linker are rebased exactly once (symbols, "
            "function entries, program entry, segment placement, relocation targets and relocated values, the linker's "
            "symbol map) and that the de-duplication map is keyed consistently, plus the flag/type/machine tables, the "
            "identical filters of the two symbol loops and the file-range + zero-fill shape of segment loading. It does not "
            "decide the byte contents of the image or relocation arithmetic beyond units.",
    "note": "Trusted: rustc nightly HIR; goblin field names (st_value, e_entry, p_vaddr, r_offset, ...) as the source of raw "
            "addresses; Symbol::address()/FunctionEntry::address() of a loaded Elf are rebased values.",
}
