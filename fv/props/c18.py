"""C18 — program locations.

Decided: forward and backward helpers are mirror images under {edges_out<->edges_in, head<->tail,
first<->last} with no extra early exits (R1); owned <-> borrowed conversion keeps variant and operand order,
resolving instructions by index (R2, IDX); Function::locations enumerates all three kinds once per object
(R3); from_address returns None only after the exhaustive search (R4). Not decided: reachability equality.
"""
from collections import Counter

from armlib import arm_table, last_seg, main_match, unq
from db import Cfg, callee, mir_callee, mir_calls, walk
from mirterm import bodies_under, calls_in, terms_of
import idxkind

RPL = "il::location::RefProgramLocation::<'p>"
SUBST = {"edges_out": "edges_in", "edges_in": "edges_out", "head": "tail", "tail": "head", "first": "last", "last": "first"}
NEUTRAL = {"rev", "into_iter", "next", "len", "is_empty", "index", "branch", "from_residual", "deref", "new", "into", "from",
           "exchange_malloc", "into_vec", "push", "format", "must_use", "to_string", "fmt", "unwrap", "get", "first", "last"}


def il_callees(db, fn):
    c = Counter()
    for d in bodies_under(db, fn):
        for i, t in mir_calls(db.mir[d]):
            n = mir_callee(t) or ""
            if n.startswith("il::") and "Display" not in n and last_seg(n) not in ("fmt",):
                c[last_seg(n)] += 1
    return c


def run(db, rep, feat, tier):
    rep.explanation = (
        "Static rules over MIR/HIR of lib/il/location.rs and lib/il/function.rs: the multiset of IL accessors called by "
        "each *_forward helper equals that of its *_backward twin after swapping edges_out/edges_in, head/tail, "
        "first/last (an extra shortcut in one direction breaks the converse relation); the conversions between "
        "borrowed and owned locations map each variant to the same-named variant with operands in order and resolve "
        "instructions through Block::instruction (by index, never by position); Function::locations constructs "
        "Instruction, EmptyBlock and Edge locations; from_address can only answer None after a loop over all "
        "functions. Equality of reachable sets is not decided.")
    r1(db, rep)
    r2(db, rep)
    idxkind.rule(db, rep, "R2b")
    r3(db, rep)
    r2c(db, rep)
    r4(db, rep)


def r1(db, rep):
    r = rep.rule("R1", "K5", "direction mirror: for each location variant, the helper forward() dispatches it to and the helper "
                 "backward() dispatches it to call the same IL accessors modulo {edges_out<->edges_in, head<->tail, "
                 "first<->last}; the forward helpers follow outgoing edges / edge tails, the backward helpers incoming edges / "
                 "edge heads (helpers are found through the dispatch, not by name)")
    helper = {}
    for direction in ("forward", "backward"):
        fn = "%s::%s" % (RPL, direction)
        hb = db.hir.get(fn)
        rep.anchor(hb is not None, fn)
        m = main_match(hb, "il::location::RefFunctionLocation")
        rep.anchor(m is not None, "match in %s" % fn)
        for a in arm_table(m):
            cs = sorted({c for c in a.callees() if c.startswith(RPL + "::") and c in db.mir and c != fn})
            for v in a.variants:
                v = last_seg(v)
                # a variant handled inline is compared through the dispatching function's arm itself: not supported -> anchor
                rep.anchor(len(cs) == 1, "%s() dispatches %s to one helper (found %s)" % (direction, v, [last_seg(c) for c in cs]))
                helper[(direction, v)] = cs[0]
    OUT = {"Instruction": ("edges_out", "edges_in"), "EmptyBlock": ("edges_out", "edges_in"), "Edge": ("tail", "head")}
    for v in ("Instruction", "Edge", "EmptyBlock"):
        rep.anchor(("forward", v) in helper and ("backward", v) in helper, "helpers for %s" % v)
        f, b = helper[("forward", v)], helper[("backward", v)]
        rep.analysed(f, b)
        stem = {"Instruction": "instruction", "Edge": "edge", "EmptyBlock": "empty_block"}[v]
        cf, cb = il_callees(db, f), il_callees(db, b)
        fwd_acc, bwd_acc = OUT[v]
        r.decide(cf[fwd_acc] >= 1 and cf[bwd_acc] == 0, "forward|%s" % v, db.where(db.mir[f]),
                 "forward() handles %s with %s, which follows %s" % (v, last_seg(f), "the wrong direction" if cf[bwd_acc] else "no edges"))
        r.decide(cb[bwd_acc] >= 1 and cb[fwd_acc] == 0, "backward|%s" % v, db.where(db.mir[b]),
                 "backward() handles %s with %s, which follows %s" % (v, last_seg(b), "the wrong direction" if cb[fwd_acc] else "no edges"))
        mapped = Counter({SUBST.get(k, k): v_ for k, v_ in cb.items()})
        # positional access differs legitimately (instructions[0] vs last()): drop direction-neutral helpers
        for k in list(cf):
            if k in ("first", "last"):
                del cf[k]
        for k in list(mapped):
            if k in ("first", "last"):
                del mapped[k]
        r.decide(cf == mapped, "%s|mirror" % stem, db.where(db.mir[f]),
                 "%s and %s are not mirror images: forward-only %s, backward-only %s" % (
                     last_seg(f), last_seg(b), dict(cf - mapped), dict(mapped - cf)))

        # number of return paths that yield Ok must agree (no extra shortcut in one direction)
        def ok_returns(fn):
            body = db.mir[fn]
            return sum(1 for blk in body["blocks"] for s_ in blk["s"]
                       if s_.get("rv", {}).get("variant") == "std::prelude::v1::Ok" and s_["d"] == [0])
        r.decide(ok_returns(f) == ok_returns(b), "%s|exits" % stem, db.where(db.mir[b]),
                 "%s has %d successful exits, %s has %d" % (last_seg(f), ok_returns(f), last_seg(b), ok_returns(b)))


def r2(db, rep):
    r = rep.rule("R2", "K4", "round trip: From<RefFunctionLocation> builds the same-named FunctionLocation variant from "
                 "(block.index(), instruction.index()) / (edge.head(), edge.tail()) / block.index(); apply() resolves "
                 "Instruction(b, i) by block(b) then instruction(i), Edge(h, t) by edge(h, t), EmptyBlock(b) by block(b) "
                 "and builds the same-named borrowed variant")
    frm = "<il::location::FunctionLocation as std::convert::From<il::location::RefFunctionLocation<'f>>>::from"
    hb = db.hir.get(frm)
    rep.anchor(hb is not None, frm)
    rep.analysed(frm)
    m = main_match(hb, "il::location::RefFunctionLocation")
    rep.anchor(m is not None, "match in From")
    for a in arm_table(m):
        names, _ = a.bindings()
        for v in a.variants:
            v = last_seg(v)
            b = unq(a.body)
            built = last_seg(b.get("fn", {}).get("ctor_of", "") or "") if b.get("k") == "Call" else None
            args = []
            if b.get("k") == "Call":
                for x in b["args"]:
                    x = unq(x)
                    if x.get("k") == "MethodCall":
                        rcv = unq(x["recv"])
                        pos = names.get(rcv.get("res", {}).get("local")) if rcv.get("k") == "Path" else None
                        args.append((pos[0] if pos else None, x["name"]))
            want = {"Instruction": [(0, "index"), (1, "index")], "Edge": [(0, "head"), (0, "tail")], "EmptyBlock": [(0, "index")]}[v]
            r.decide(built == v and args == want, "from|%s" % v, db.where(hb, a.line),
                     "%s is converted to %s%s, expected %s%s" % (v, built, args, v, want))
    ap = "il::location::FunctionLocation::apply"
    hb = db.hir.get(ap)
    rep.anchor(hb is not None, ap)
    rep.analysed(ap)
    m = main_match(hb, "il::location::FunctionLocation")
    rep.anchor(m is not None, "match in apply")
    for a in arm_table(m):
        names, _ = a.bindings()
        for v in a.variants:
            v = last_seg(v)
            calls_ = []
            for x in walk(a.body):
                if x.get("k") == "MethodCall" and x["name"] in ("block", "instruction", "edge", "instruction_mut"):
                    poss = []
                    for y in x["args"]:
                        y = unq(y)
                        p = names.get(y.get("res", {}).get("local")) if y.get("k") == "Path" else None
                        poss.append(p[0] if p else None)
                    calls_.append((x["name"], tuple(poss)))
            built = [last_seg(x.get("fn", {}).get("ctor_of", "") or "") for x in walk(a.body) if x.get("k") == "Call" and
                     (x.get("fn", {}).get("ctor_of", "") or "").startswith("il::location::RefFunctionLocation::")]
            want = {"Instruction": {("block", (0,)), ("instruction", (1,))}, "Edge": {("edge", (0, 1))}, "EmptyBlock": {("block", (0,))}}[v]
            r.decide(set(calls_) == want and built == [v], "apply|%s" % v, db.where(hb, a.line),
                     "apply(%s) resolves through %s and builds %s, expected %s" % (v, sorted(calls_), built, sorted(want)))


def r3(db, rep):
    r = rep.rule("R3", "K4", "Function::locations pushes an Instruction location per instruction, an EmptyBlock location "
                 "for a block without instructions (exclusively), and an Edge location per edge")
    fn = "il::function::Function::locations"
    hb = db.hir.get(fn)
    rep.anchor(hb is not None, fn)
    rep.analysed(fn)
    built = Counter(last_seg(x.get("fn", {}).get("ctor_of", "") or "") for x in walk(hb["body"]) if x.get("k") == "Call" and
                    (x.get("fn", {}).get("ctor_of", "") or "").startswith("il::location::RefFunctionLocation::"))
    r.decide(built == Counter({"Instruction": 1, "EmptyBlock": 1, "Edge": 1}), "locations|kinds", db.where(hb),
             "locations() constructs %s" % dict(built))
    excl = False
    for n in walk(hb["body"]):
        if n.get("k") == "If":
            c = unq(n["c"])
            if c.get("k") == "MethodCall" and c["name"] == "is_empty":
                t = [last_seg(x.get("fn", {}).get("ctor_of", "") or "") for x in walk(n["then"]) if x.get("k") == "Call"]
                e = [last_seg(x.get("fn", {}).get("ctor_of", "") or "") for x in walk(n.get("else", {})) if x.get("k") == "Call"]
                excl = "EmptyBlock" in t and "Instruction" in e and "Instruction" not in t and "EmptyBlock" not in e
    r.decide(excl, "locations|empty_vs_instructions", db.where(hb), "EmptyBlock and Instruction locations must be exclusive per block")


def r2c(db, rep):
    r = rep.rule("R2c", "K7", "instructions are looked up by comparing indices, never by an order-dependent search: no binary search "
                 "(or other sortedness assumption) over a block's instruction vector - instructions_mut() lets callers reorder it, "
                 "and index order is not an invariant")
    n = 0
    bad = []
    for k in db.mir.keys():
        if not k.startswith("il::"):
            continue
        body = db.mir[k]
        for i, t in mir_calls(body):
            c = mir_callee(t) or ""
            if "binary_search" in c or "partition_point" in c:
                fg = t.get("fg") or ""
                if "Instruction" in fg or "instruction" in fg.lower():
                    bad.append((k, c, t.get("l"), body))
        n += 1
    for k, c, l, body in bad:
        r.bad("ordered_search|%s" % last_seg(k), db.where(body, l),
              "%s searches the instruction vector with %s: an instruction is not found once the vector is not in ascending index "
              "order (hoisting through instructions_mut), so FunctionLocation::apply fails for an existing instruction" % (last_seg(k), last_seg(c)))
    if not bad:
        r.ok("ordered_search|none", "", detail={"functions_scanned": n})


def r4(db, rep):
    r = rep.rule("R4", "K6", "from_address: every path that answers None has gone through the loop over all functions of "
                 "the program that compares every instruction address (the exhaustive search is unconditional)")
    fn = RPL + "::from_address"
    body = db.mir.get(fn)
    rep.anchor(body is not None, fn)
    rep.analysed(fn)
    cfg = Cfg(body)
    loops = [(t["l"], i) for i, t in mir_calls(body) if mir_callee(t) == "il::program::Program::functions"]
    nones = [i for i, b in enumerate(body["blocks"]) for s in b["s"]
             if s.get("rv", {}).get("variant") == "std::prelude::v1::None" and s["d"] == [0]]
    rep.anchor(loops and nones, "functions() loops and None answer in from_address")
    last_loop = max(loops)[1]
    # the exhaustive loop must not filter functions: between functions() and the address comparison no Function::address call
    r.decide(all(cfg.dominates(last_loop, n) for n in nones), "from_address|exhaustive", db.where(body),
             "None is answered on a path that skipped the exhaustive search over all functions")
    # ... and the exhaustive loop filters nothing: once a function has been fetched, its blocks are walked unconditionally
    nexts = [i for i, t in mir_calls(body) if (mir_callee(t) or "").endswith("Iterator>::next") and cfg.dominates(last_loop, i)]
    blocks_calls = [i for i, t in mir_calls(body) if (mir_callee(t) or "") == "il::function::Function::blocks" and cfg.dominates(last_loop, i)]
    ok = bool(nexts) and bool(blocks_calls)
    if ok:
        fn_next = min(nexts)          # the loop over functions is the outermost of the three nested loops
        reach = set()
        for s_ in cfg.succ[fn_next]:
            reach |= cfg.reachable(s_, avoid=blocks_calls)
        # without walking the blocks only the loop exit (None) may be reached, not the next function
        ok = fn_next not in reach
    r.decide(ok, "from_address|exhaustive_unfiltered", db.where(body, body["blocks"][last_loop]["t"].get("l")),
             "the exhaustive pass skips functions without looking at their instructions: an instruction that lies below its "
             "function's entry address (or in any function the filter excludes) is not found")


MANIFEST = {
    "technique": "static analysis: twin-function agreement under a direction substitution (MIR callee multisets), per-variant arm rules on HIR, index/position provenance, MIR dominance",
    "text": "Decides on every run that stepping forward and backward are implemented as mirror images (necessary for them "
            "to be converse relations), that owned/borrowed location conversions keep variant and operand order and "
            "resolve instructions by index, that Function::locations enumerates each kind, and that address lookup only "
            "fails after the exhaustive search. It does not decide equality of the reachable location sets.",
    "note": "Trusted: rustc nightly MIR/HIR; names of falcon's public IL accessors in the substitution table.",
}
