"""C16 — backing memory.

Decided: reads and 32-bit accesses never panic: every panic site reachable from the public operations is
discharged (R1); get32/set32 use the architectural byte order and agree with each other (R2); the bounds
test dominates the four byte accesses (R3); byte assembly order of get() per endianness (R4); empty regions
are ignored before any section is touched (R5); section lookup is half-open interval containment (R6).
Not decided: non-overlap of sections after set_memory (interval arithmetic over five cases).
"""
from armlib import arm_table, last_seg, main_match, unq
from db import Cfg, callee, int_lit, mir_callee, mir_calls, strip, walk
from mirterm import Terms, calls_in, params_of, show, strip_overflow, subterms, terms_of
import panics

M = "memory::backing::Memory"
ENDIAN = "architecture::Endian"


def run(db, rep, feat, tier):
    rep.explanation = (
        "Static rules over HIR/MIR of lib/memory/backing.rs: call-graph panic reachability from get8/get/get32/"
        "set32/permissions/set_memory with discharge by key provenance (a section key obtained from a lookup in the "
        "same map), by the dominating bounds test, or by a reasoned allow-list; extraction of the (byte offset, shift) "
        "table of get32 and set32 per endianness arm and comparison with the architectural table and with each other; "
        "dominance of the `offset + 4 > len` test over the byte accesses; accumulate-then-shift (big) versus "
        "shift-the-new-byte (little) shape of get(); the empty-region early return dominating all section updates; "
        "the two comparisons of section_address. Non-overlap after set_memory is not decided.")
    for f in ("get8", "get", "get32", "set32", "permissions", "set_memory"):
        rep.anchor("%s::%s" % (M, f) in db.mir, "%s::%s" % (M, f))
    r3ok = r3(db, rep)
    r2(db, rep)
    r4(db, rep)
    r5(db, rep)
    r6(db, rep)
    r7(db, rep)
    r8(db, rep)
    r1(db, rep, r3ok)


# ------------------------------------------------------------------------------------------------ R2
def byte_table_get(arm_body):
    """(offset k -> shift s) from `(data[offset + k] as u32) << s | ...`"""
    tab = {}
    for n in walk(arm_body):
        if n.get("k") == "Binary" and n.get("op") == "Shl":
            k = index_offset(n["a"])
            s = int_lit(n["b"])
            if k is not None and s is not None:
                tab[k] = s
    # unshifted byte
    for n in walk(arm_body):
        if n.get("k") == "Binary" and n.get("op") == "BitOr":
            for side in (n["a"], n["b"]):
                k = index_offset(side)
                if k is not None and k not in tab:
                    tab[k] = 0
    return tab


def index_offset(n):
    n = strip(n)
    if n.get("k") == "Cast":
        n = strip(n["e"])
    if n.get("k") == "Index":
        return plus_const(n["i"])
    return None


def plus_const(i):
    i = strip(i)
    if i.get("k") == "Path" and "local" in i["res"]:
        return 0
    if i.get("k") == "Binary" and i.get("op") == "Add":
        a, b = strip(i["a"]), int_lit(i["b"])
        if a.get("k") == "Path" and b is not None:
            return b
    return None


def byte_table_set(arm_body):
    """(offset k -> shift s) from `*data.get_mut(offset + k).unwrap() = (value >> s) as u8`"""
    tab = {}
    for n in walk(arm_body):
        if n.get("k") != "Assign":
            continue
        lhs = strip(n["lhs"])
        k = None
        for x in walk(lhs):
            if x.get("k") == "MethodCall" and x["name"] in ("get_mut", "index_mut") and x["args"]:
                k = plus_const(x["args"][0])
            if x.get("k") == "Index":
                k = plus_const(x["i"])
        rhs = strip(n["rhs"])
        if rhs.get("k") == "Cast":
            rhs = strip(rhs["e"])
        s = None
        if rhs.get("k") == "Binary" and rhs.get("op") == "Shr":
            s = int_lit(rhs["b"])
        elif rhs.get("k") == "Path":
            s = 0
        if k is not None and s is not None:
            tab[k] = s
    return tab


def r2(db, rep):
    r = rep.rule("R2", "K5", "get32 and set32 use the (byte offset, shift) table of their endianness "
                 "(big: 0->24 1->16 2->8 3->0; little: 0->0 1->8 2->16 3->24) and agree with each other")
    want = {"Big": {0: 24, 1: 16, 2: 8, 3: 0}, "Little": {0: 0, 1: 8, 2: 16, 3: 24}}
    tabs = {}
    for fn, extract in (("get32", byte_table_get), ("set32", byte_table_set)):
        hb = db.hir["%s::%s" % (M, fn)]
        rep.analysed(hb["def"])
        m = main_match(hb, ENDIAN)
        rep.anchor(m is not None, "match over Endian in %s" % fn)
        for a in arm_table(m):
            for v in a.variants:
                e = last_seg(v)
                t = extract(a.body)
                tabs[(fn, e)] = t
                key = "%s|%s" % (fn, e)
                if len(t) != 4:
                    r.open(key, db.where(hb, a.line), "byte table not recognised: %s" % t)
                else:
                    r.decide(t == want[e], key, db.where(hb, a.line),
                             "%s %s-endian byte table is %s, architectural table is %s" % (fn, e.lower(), t, want[e]),
                             detail={"table": {str(k): v for k, v in t.items()}})
    for e in ("Big", "Little"):
        a, b = tabs.get(("get32", e)), tabs.get(("set32", e))
        if a and b and len(a) == 4 and len(b) == 4:
            r.decide(a == b, "get32~set32|%s" % e, "", "reader and writer disagree for %s: %s vs %s" % (e, a, b))
    r.floor(4, "2 functions x 2 endiannesses")


# ------------------------------------------------------------------------------------------------ R3
def r3(db, rep):
    r = rep.rule("R3", "K6", "in get32/set32 the test `offset + 4 > section.len()` (early None / Err) dominates "
                 "every access to the section's bytes")
    allok = True
    for fn in ("get32", "set32"):
        body = db.mir["%s::%s" % (M, fn)]
        rep.analysed(body["def"])
        cfg = Cfg(body)
        tm = Terms(body, db)
        guard = None
        for i, b in enumerate(body["blocks"]):
            t = b["t"]
            if t["k"] != "SwitchInt":
                continue
            c = tm.operand(t["discr"])
            if c[0] == "bin" and c[1] in ("Gt", "Ge", "Lt", "Le"):
                sides = [strip_overflow(c[2]), strip_overflow(c[3])]
                plus4 = [s for s in sides if s[0] == "bin" and s[1] == "Add" and ("const", 4) in (s[2], s[3])]
                lens = [s for s in sides if any(last_seg(x[1]) == "len" for x in calls_in(s))]
                if plus4 and lens:
                    # in-range side: not (offset + 4 > len)
                    tg = dict((v, bb) for v, bb in t["targets"])
                    gt_form = (c[1] in ("Gt", "Ge")) == (sides[0] is plus4[0] or sides[0] == plus4[0])
                    safe = tg.get(0) if gt_form else t["otherwise"]
                    strict_ok = c[1] in ("Gt", "Le") if gt_form else c[1] in ("Lt", "Ge")
                    guard = (i, safe, c, strict_ok)
        if guard is None:
            r.bad("%s|bounds" % fn, db.where(body), "no `offset + 4 > len` test found")
            allok = False
            continue
        acc = []
        for i, b in enumerate(body["blocks"]):
            t = b["t"]
            if t["k"] == "Assert" and t["ak"] == "Bounds":
                acc.append(i)
            if t["k"] == "Call" and last_seg(mir_callee(t) or "") in ("index", "index_mut", "get_mut", "get") and \
                    "u8" in t.get("fg", "") and "BTreeMap" not in t.get("fg", ""):
                acc.append(i)
        bad = [i for i in acc if not cfg.dominates(guard[1], i)]
        ok = bool(acc) and not bad and guard[3]
        allok = allok and ok
        r.decide(ok, "%s|bounds" % fn, db.where(body),
                 "byte access at MIR blocks %s not dominated by the in-range side of %s" % (bad, show(guard[2])[:80]),
                 detail={"guard": show(guard[2])[:100], "accesses": len(acc)})
    return allok


# ------------------------------------------------------------------------------------------------ R4
def r4(db, rep):
    r = rep.rule("R4", "K10", "get(): big-endian assembly shifts the accumulated value left by 8 and ors the next "
                 "byte in; little-endian shifts the new byte left by i*8 and ors it onto the accumulated value; every "
                 "byte is read at address + i")
    hb = db.hir[M + "::get"]
    rep.analysed(hb["def"])
    m = main_match(hb, ENDIAN)
    rep.anchor(m is not None, "match over Endian in get")
    for a in arm_table(m):
        for v in a.variants:
            e = last_seg(v)
            shl = [n for n in walk(a.body) if callee(n) == "il::expression::Expression::shl"]
            if len(shl) != 1:
                r.open("get|%s" % e, db.where(hb, a.line), "expected one shl, found %d" % len(shl))
                continue
            s = shl[0]
            arg0, arg1 = unq(s["args"][0]), unq(s["args"][1])
            acc_shifted = arg0.get("k") == "Path" and "local" in arg0["res"]
            amount = None
            if callee(arg1) == "il::expr_const":
                amount = unq(arg1["args"][0])
            if e == "Big":
                ok = acc_shifted and amount is not None and int_lit(amount) == 8
            else:
                byte_shifted = callee(arg0) == "il::expr_const" and any(
                    (callee(x) or "").endswith("::get8") for x in walk(arg0))
                amt_ok = amount is not None and any(
                    x.get("k") == "Binary" and x.get("op") == "Mul" and 8 in (int_lit(x["a"]), int_lit(x["b"]))
                    for x in walk(amount))
                ok = byte_shifted and amt_ok
            r.decide(ok, "get|%s" % e, db.where(hb, s["l"]), "byte assembly of %s-endian get() has the wrong shape" % e.lower())
            # every get8 in the loop reads address + i
            g8 = [n for n in walk(a.body) if (callee(n) or "").endswith("::get8")]
            okaddr = bool(g8) and all(
                unq(n["args"][0]).get("k") == "Binary" and unq(n["args"][0]).get("op") == "Add" for n in g8)
            r.decide(okaddr, "get|%s|addr" % e, db.where(hb, a.line), "later bytes are not read at address + i")


# ------------------------------------------------------------------------------------------------ R5
def r5(db, rep):
    r = rep.rule("R5", "K6", "set_memory returns before touching any section when the region is empty (an empty "
                 "section would shadow the section covering its address)")
    body = db.mir[M + "::set_memory"]
    rep.analysed(body["def"])
    cfg = Cfg(body)
    tm = Terms(body, db)
    guard = None
    for i, b in enumerate(body["blocks"]):
        t = b["t"]
        if t["k"] == "SwitchInt":
            c = tm.operand(t["discr"])
            if c[0] == "call" and last_seg(c[1]) == "is_empty" and 3 in params_of(c):
                tg = dict((v, bb) for v, bb in t["targets"])
                guard = tg.get(0)
            if c[0] == "bin" and c[1] in ("Eq", "Ne") and ("const", 0) in (c[2], c[3]) and \
                    any(last_seg(x[1]) == "len" and 3 in params_of(x) for x in calls_in(c)):
                tg = dict((v, bb) for v, bb in t["targets"])
                guard = tg.get(0) if c[1] == "Eq" else t["otherwise"]
    muts = [i for i, t in mir_calls(body) if "BTreeMap" in (t.get("f") or "") and
            last_seg(t["f"]) in ("insert", "remove", "get_mut", "iter", "entry")]
    rep.anchor(muts, "section map accesses in set_memory")
    ok = guard is not None and all(cfg.dominates(guard, i) for i in muts)
    r.decide(ok, "set_memory|empty", db.where(body), "section map is touched on a path that did not exclude an empty region")


# ------------------------------------------------------------------------------------------------ R6
def locator(db):
    """The private function that finds the section containing an address: the one function of the module that ranges over the
    section map."""
    fs = [k for k in db.mir.keys() if k.startswith(M + "::") and "::{closure#" not in k and
          any((mir_callee(t) or "").endswith("BTreeMap::<K, V, A>::range") for i, t in mir_calls(db.mir[k]))]
    return fs[0] if len(fs) == 1 else None


def locators(db):
    """The lookup and the private functions whose result is derived from it (e.g. (start, offset) pairs)."""
    base = locator(db)
    out = {base} if base else set()
    changed = True
    while changed:
        changed = False
        for k in db.mir.keys():
            if k in out or not k.startswith(M + "::") or "::{closure#" in k:
                continue
            h = db.hir.get(k)
            if h is None or h.get("vis") == "Public":
                continue
            tm_ = terms_of(db, k, _TERMS)
            if any(c[1] in out for c in calls_in(tm_.local(0))):
                out.add(k)
                changed = True
    return out


def r6(db, rep):
    r = rep.rule("R6", "K4", "section_address: the candidate is the greatest section start <= address (range up to and "
                 "including address, next_back) and it covers address iff start <= address < start + len")
    loc = locator(db)
    rep.anchor(loc is not None, "the section lookup of the backing memory (the function that ranges over the section map)")
    body = db.mir[loc]
    hb = db.hir[loc]
    rep.analysed(body["def"])
    atoms = set()
    # every ordering comparison of the lookup, in its body or in a closure it passes to an adaptor (filter / map ...)
    comps = []
    for cdef in [loc] + list(db.closures_of(loc)):
        cb = db.mir.get(cdef)
        if cb is None:
            continue
        ctm = terms_of(db, cdef, _TERMS)
        for bb in cb["blocks"]:
            for s_ in bb["s"]:
                rv = s_.get("rv", {})
                if rv.get("k") == "BinaryOp" and rv.get("op") in ("Le", "Lt", "Ge", "Gt"):
                    comps.append(("bin", rv["op"], ctm.operand(rv["a"]), ctm.operand(rv["b"])))
    for c in comps:

        def cls(x):
            x = strip_overflow(x)
            if x == ("param", 2):
                return "A"
            if x[0] == "bin" and x[1] == "Add" and any(last_seg(y[1]) == "len" for y in calls_in(x)):
                return "S+LEN"
            if x[0] != "bin" and any(last_seg(y[1]) in ("next_back", "next", "range", "last_key_value") for y in calls_in(x)):
                return "S"
            return "?"
        a, b_ = cls(c[2]), cls(c[3])
        op = c[1]
        flip = {"Le": "Ge", "Ge": "Le", "Lt": "Gt", "Gt": "Lt"}
        if a == "A":
            a, b_, op = b_, a, flip[op]
        atoms.add("%s %s %s" % (a, op, b_))
    want = {"S Le A", "S+LEN Gt A"}
    r.decide(atoms == want, "section_address|contains", db.where(body),
             "containment test is %s, expected %s" % (sorted(atoms), sorted(want)))
    cs = [callee(n) or "" for n in walk(hb["body"])]
    okdir = any(c.endswith("next_back") for c in cs) and not any(c.endswith("Iterator::next") for c in cs)
    inc = any(last_seg(n.get("fn", {}).get("ctor_of", "") or "") == "Included" for n in walk(hb["body"]) if n.get("k") == "Call")
    r.decide(okdir and inc, "section_address|candidate", db.where(hb),
             "candidate must be the last section of the range ..=address")


def r7(db, rep):
    r = rep.rule("R7", "K9", "set_memory: a section split off an older section keeps that section's permissions; only "
                 "the new region takes the permissions parameter; get() assembles bytes through get8 only (never "
                 "through the single-section 32-bit accessor)")
    body = db.mir[M + "::set_memory"]
    tm = Terms(body, db)
    n = 0
    for i, t in mir_calls(body):
        if mir_callee(t) == "memory::backing::Section::new":
            data, perm = tm.operand(t["args"][0]), tm.operand(t["args"][1])
            from_split = any(last_seg(c[1]) == "split_off" for c in calls_in(data))
            key = "set_memory|section_new|%d" % n
            n += 1
            if from_split:
                ok = any(last_seg(c[1]) == "permissions" for c in calls_in(perm)) and ("param", 4) not in list(subterms(perm))
                r.decide(ok, key, db.where(body, t["l"]),
                         "the tail split off an older section takes %s instead of the older section's permissions" % show(perm)[:60])
            else:
                ok = perm == ("param", 4) and 3 in params_of(data)
                r.decide(ok, key, db.where(body, t["l"]), "the new region must take the data and permissions parameters")
    r.floor(3, "two split-off tails and the new region")
    g = panics.call_graph(db)
    reach = g.reach([M + "::get"])
    bad = [f for f in reach if f in (M + "::get32",)]
    r.decide(not bad, "get|bytewise", db.where(db.mir[M + "::get"]),
             "get() reaches get32, which only reads inside one section: a read across adjacent sections is lost")


def r8(db, rep):
    r = rep.rule("R8", "K4", "set_memory: an older section that starts before the new region is truncated when it ends "
                 "at or before the new region's end (a + l <= address + len) and split only when it ends strictly "
                 "after it, so no empty tail section is created (an empty section would replace its neighbour)")
    body = db.mir[M + "::set_memory"]
    tm = Terms(body, db)
    cfg = Cfg(body)
    found = None
    for i, b in enumerate(body["blocks"]):
        t = b["t"]
        if t["k"] != "SwitchInt":
            continue
        c = tm.operand(t["discr"])
        if c[0] == "bin" and c[1] in ("Le", "Lt", "Ge", "Gt"):
            a_, b_ = strip_overflow(c[2]), strip_overflow(c[3])
            def is_end_old(x):
                return x[0] == "bin" and x[1] == "Add" and 2 not in params_of(x) and 3 not in params_of(x)
            def is_end_new(x):
                return x[0] == "bin" and x[1] == "Add" and ("param", 2) in (strip_overflow(x[2]), strip_overflow(x[3])) and any(
                    last_seg(cc[1]) == "len" and 3 in params_of(cc) for cc in calls_in(x))
            # which side is followed by truncate / split_off
            tg = dict((v, bb) for v, bb in t["targets"])
            true_side, false_side = t["otherwise"], tg.get(0)
            def side_calls(s, other):
                mine, theirs = cfg.reachable(s), cfg.reachable(other) if other is not None else set()
                return {last_seg(mir_callee(ct) or "") for j, ct in mir_calls(body) if j in mine}
            if is_end_old(a_) and is_end_new(b_) or is_end_new(a_) and is_end_old(b_):
                op = c[1]
                if is_end_new(a_):
                    op = {"Le": "Ge", "Ge": "Le", "Lt": "Gt", "Gt": "Lt"}[op]
                # only the decision whose true side truncates and whose false side splits
                first_true = [last_seg(mir_callee(body["blocks"][j]["t"]) or "") for j in sorted(cfg.reachable(true_side))
                              if body["blocks"][j]["t"]["k"] == "Call"]
                if "truncate" in first_true[:12] and found is None and op in ("Le", "Lt"):
                    found = (op, t["l"])
    if found is None:
        r.open("set_memory|truncate_vs_split", db.where(body), "decision not recognised")
    else:
        r.decide(found[0] == "Le", "set_memory|truncate_vs_split", db.where(body, found[1]),
                 "an older section ending exactly at the new region's end is split (creating an empty tail) instead of truncated")


# ------------------------------------------------------------------------------------------------ R1
def r1(db, rep, r3ok):
    r = rep.rule("R1", "K8", "no undischarged panic site is reachable from get8 / get / get32 / set32 / permissions / "
                 "set_memory")
    entries = ["%s::%s" % (M, f) for f in ("get8", "get", "get32", "set32", "permissions", "set_memory")]
    locs = locators(db)

    def discharge(db_, body, tm, s):
        t = s["extra"]
        if s["kind"] in ("bounds", "index") and s["fn"] in (M + "::get32", M + "::set32") and r3ok:
            return "dominated by the in-range side of the `offset + 4 > len` test (rule R3 holds on this tree)"
        if s["kind"] == "unwrap" and s["fn"] in (M + "::get32", M + "::set32") and r3ok and s.get("origin") and \
                last_seg(s["origin"]) in ("get_mut", "get") and "BTreeMap" not in s["origin"]:
            return "byte access dominated by the in-range side of the bounds test (rule R3)"
        # a panic inside the fallback closure of `map.get(key).unwrap_or_else(|| panic!(..))` is an unwrap of
        # that lookup in the parent body
        ot = s.get("oterm")
        if s["kind"] == "panic" and "::{closure#" in s["fn"]:
            from mirterm import immediate_parent
            par = immediate_parent(s["fn"])
            pb = db_.mir.get(par)
            if pb is not None:
                ptm = terms_of(db_, par, _TERMS)
                for i, t2 in mir_calls(pb):
                    if (t2.get("f") or "").endswith("Option::<T>::unwrap_or_else") and len(t2["args"]) == 2:
                        clo = ptm.operand(t2["args"][1])
                        if clo[0] == "closure" and clo[1] == s["fn"]:
                            recv = ptm.operand(t2["args"][0])
                            while recv[0] in ("field", "variant"):
                                recv = recv[1]
                            if recv[0] == "call" and "BTreeMap" in recv[1] and last_seg(recv[1]) in ("get", "get_mut"):
                                key = recv[2][1]
                                src = {last_seg(c[1]) for c in calls_in(key)}
                                if {c[1] for c in calls_in(key)} & locs:
                                    return "fallback of a lookup whose key was returned by section_address() for the same map"
                            if recv[0] == "call" and last_seg(recv[1]) == "get" and "slice" in recv[1]:
                                off = recv[2][1]
                                if any(c[1] in locs for c in calls_in(off)):
                                    return ("fallback of data.get(offset) with offset = address - section start < "
                                            "section length (section_address() checked containment)")
        if s["kind"] == "unwrap" and ot is not None and "BTreeMap" in ot[1] and last_seg(ot[1]) in ("get", "get_mut"):
            key = ot[2][1] if len(ot[2]) > 1 else None
            if key is not None:
                src = {last_seg(c[1]) for c in calls_in(key)}
                if {c[1] for c in calls_in(key)} & locs:
                    return "key was returned by section_address() for the same map"
                if any(x[0] in ("carg",) for x in subterms(key)) or any(x[0] == "field" for x in subterms(key)):
                    pass
        return None

    panics.reach_rule(db, rep, r, entries, scope_prefixes=("memory::backing::",), site_allow=SITE_ALLOW,
                      extra_discharge=discharge, floor=5)


_SAME_WIDTH = ("every operand is il::expr_const(_, bits) or the accumulated value of the same `bits`, so the "
               "constructor's sort check and the evaluation cannot fail (no scalar, no division)")
_TERMS = {}
_KEY_REASON = ("the key was collected from the section map at the start of set_memory and is removed only in its own "
               "iteration, after this access")
SITE_ALLOW = {}
for _i in range(12):
    SITE_ALLOW["%s::set_memory|unwrap@std::collections::BTreeMap::<K, V, A>::get_mut|%d" % (M, _i)] = _KEY_REASON
    SITE_ALLOW["%s::set_memory|unwrap@std::collections::BTreeMap::<K, V, A>::get|%d" % (M, _i)] = _KEY_REASON


for _i in range(1, 5):
    SITE_ALLOW["%s::set_memory::{closure#%d}|panic@panic_fmt|0" % (M, _i)] = "fallback of a section lookup: " + _KEY_REASON
SITE_ALLOW[M + "::set_memory|panic@panic_fmt|0"] = "defensive: guarded by !contains_key(a) for a collected key; " + _KEY_REASON
SITE_ALLOW[M + "::set_memory|panic@panic_fmt|1"] = (
    "defensive: guarded by offset > data_len, but offset = address + len - a < l = data_len in this branch "
    "(a < address + len < a + l)")
for _i in range(3):
    SITE_ALLOW["%s::get|unwrap@il::expression::Expression::or|%d" % (M, _i)] = _SAME_WIDTH
    SITE_ALLOW["%s::get|unwrap@il::expression::Expression::shl|%d" % (M, _i)] = _SAME_WIDTH
    SITE_ALLOW["%s::get|unwrap@executor::eval::eval|%d" % (M, _i)] = _SAME_WIDTH
    SITE_ALLOW["%s::set_memory|maypanic@split_off|%d" % (M, _i)] = (
        "offset = address + data.len() - a with a + l > address + data.len() in this branch, so offset < l = len of "
        "the section being split")


MANIFEST = {
    "technique": "static analysis: call-graph panic reachability with provenance/dominance discharge, reader-writer byte-table agreement on HIR, MIR dominance",
    "text": "Decides on every run that no undischarged panic site is reachable from the read/write API of the backing memory, "
            "that get32 and set32 implement the architectural byte order of each endianness and agree with each other, "
            "that the 4-byte bounds test dominates the byte accesses, the assembly shape of multi-byte get(), the "
            "empty-region early return and the half-open containment test of the section lookup. It does not decide that "
            "sections never overlap after arbitrary set_memory sequences (five-case interval arithmetic).",
    "note": "Trusted: rustc nightly HIR/MIR; allow-list entries for section keys collected inside set_memory (reason in "
            "fv/props/c16.py). Overflow asserts are not panic sites here.",
}
