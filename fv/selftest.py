"""Positive controls (thorough tier): every control is a small source patch that compiles and passes the baseline suite but
breaks the property; it is applied to a scratch copy of /repo *outside /repo and /verif*, the facts are re-extracted from the
scratch copy and the property's rules must report a violation of the expected rule.  A control that no longer fires is a
failure of the checker (exit 2), never a property verdict.  Controls that no longer apply to the current tree are skipped and
counted.  The scratch copy is removed as soon as its verdict has been read.

Controls live in /verif/selftest/<Cxx>/<name>.json:
  {"patch": "<file in the same directory | /verif/seeded/.../patch.diff>", "reverse": bool, "expect": ["R4", ...], "what": "..."}
"""
import glob
import json
import os
import shutil
import subprocess

import facts
from db import DB
from report import Report, load_known

VERIF = os.path.dirname(os.path.dirname(os.path.abspath(__file__)))
COPY = ("lib", "Cargo.toml", "Cargo.lock")


def controls(prop):
    out = []
    for j in sorted(glob.glob(os.path.join(VERIF, "selftest", prop, "*.json"))):
        c = json.load(open(j))
        p = c["patch"]
        c["patch_path"] = p if os.path.isabs(p) else os.path.join(os.path.dirname(j), p)
        c["name"] = os.path.basename(j)[:-5]
        out.append(c)
    return out


def scratch_copy(repo, dst):
    shutil.rmtree(dst, ignore_errors=True)
    os.makedirs(dst)
    for x in COPY:
        s = os.path.join(repo, x)
        if os.path.isdir(s):
            shutil.copytree(s, os.path.join(dst, x))
        elif os.path.exists(s):
            shutil.copy2(s, os.path.join(dst, x))


def fired_rules(mod, prop, repo):
    d = facts.extract("", repo=repo)
    db = DB(d)
    rep = Report(prop, "quick", 0)
    mod.run(db, rep, "", "quick")
    known, _fixed = load_known(prop)
    out = {}
    for i in rep.all_instances():
        if i["verdict"] == "bad" and i["key"] not in known:
            out.setdefault(i["key"].split("|", 1)[0], []).append(i)
    return out


def run(prop, mod, rep, repo=None, limit=None):
    repo = repo or facts.REPO
    cs = controls(prop)
    if limit:
        cs = cs[:limit]
    res = {"controls": len(cs), "fired": 0, "skipped_not_applicable": 0, "failed": []}
    details = []
    scratch = "/var/tmp/fv-scratch.%d" % os.getpid()
    try:
        for c in cs:
            scratch_copy(repo, scratch)
            cmd = ["git", "apply", "--whitespace=nowarn"] + (["-R"] if c.get("reverse") else []) + [c["patch_path"]]
            r = subprocess.run(cmd, cwd=scratch, stdout=subprocess.PIPE, stderr=subprocess.STDOUT, text=True)
            if r.returncode != 0:
                res["skipped_not_applicable"] += 1
                details.append({"control": c["name"], "outcome": "skipped: patch does not apply to the current tree"})
                continue
            try:
                fired = fired_rules(mod, prop, scratch)
            except SystemExit as e:
                res["skipped_not_applicable"] += 1
                details.append({"control": c["name"], "outcome": "skipped: %s" % e})
                continue
            hit = [r_ for r_ in c["expect"] if r_ in fired]
            if hit:
                res["fired"] += 1
                i = fired[hit[0]][0]
                details.append({"control": c["name"], "outcome": "fired", "rule": hit[0], "where": i["where"], "message": i["msg"][:200]})
            else:
                res["failed"].append(c["name"])
                details.append({"control": c["name"], "outcome": "SILENT", "expected": c["expect"], "fired_rules": sorted(fired)})
    finally:
        shutil.rmtree(scratch, ignore_errors=True)
    rep.notes.append({"selftest": res, "selftest_details": details})
    print("%s selftest: %d controls, %d fired, %d skipped (do not apply), %d silent" % (
        prop, res["controls"], res["fired"], res["skipped_not_applicable"], len(res["failed"])))
    if res["failed"]:
        raise SystemExit("selftest: control(s) %s no longer make the expected rule fire - the checker lost detection power" % res["failed"])
    return res
