"""K8 PANIC-REACH: crate call graph over MIR, panic-site enumeration, discharge, reach rule."""
from collections import defaultdict

from db import Cfg, mir_callee, mir_calls, op_place, op_const_int
from mirterm import Terms, show, terms_of

UNWRAPS = (
    "std::option::Option::<T>::unwrap", "std::option::Option::<T>::expect",
    "std::result::Result::<T, E>::unwrap", "std::result::Result::<T, E>::expect",
    "std::result::Result::<T, E>::unwrap_err", "std::result::Result::<T, E>::expect_err",
)
PANIC_FNS_PREFIX = ("core::panicking::", "std::rt::begin_panic", "std::rt::panic_fmt", "std::process::abort",
                    "std::process::exit", "core::panicking::panic", "std::panicking::")
# std functions that panic on some arguments (flagged as sites; discharged by guards / allow-list)
MAY_PANIC = (
    "std::vec::Vec::<T, A>::remove", "std::vec::Vec::<T, A>::insert", "std::vec::Vec::<T, A>::swap_remove",
    "std::vec::Vec::<T, A>::split_off", "std::vec::Vec::<T, A>::drain",
    "core::slice::<impl [T]>::copy_from_slice", "core::slice::<impl [T]>::split_at",
    "std::collections::VecDeque::<T, A>::remove", "std::cell::RefCell::<T>::borrow_mut",
    "std::cell::RefCell::<T>::borrow", "core::str::<impl str>::split_at",
)
INDEX_FNS = ("std::ops::Index::index", "std::ops::IndexMut::index_mut")


def call_graph(db):
    g = getattr(db, "_call_graph", None)
    if g is None:
        g = CallGraph(db)
        db._call_graph = g
    return g


class CallGraph:
    def __init__(self, db):
        import json as _json
        import os as _os
        self.db = db
        self.edges = defaultdict(set)
        self.trait_impls = defaultdict(list)  # trait method path -> impl method defs
        self.calls = _json.load(open(_os.path.join(db.dir, "calls.json")))
        mir = db.mir
        for k in db.hir.keys():
            # <Type as Trait>::method
            if k.startswith("<") and " as " in k:
                head, _, name = k.rpartition("::")
                tr = head[head.index(" as ") + 4:-1]
                self.trait_impls["%s::%s" % (tr, name)].append(k)
        for k, e in self.calls.items():
            for c in e["closures"]:
                self.edges[k].add(c)
            for fn, r in e["fnptrs"]:
                tgt = r or fn
                if tgt in mir:
                    self.edges[k].add(tgt)
                elif fn in self.trait_impls and not r:
                    self.edges[k].update(self.trait_impls[fn])
            for f, c, virt in e["calls"]:
                if c and c in mir:
                    self.edges[k].add(c)
                elif f and f in mir:
                    self.edges[k].add(f)
                    if f in self.trait_impls and (virt or not c):
                        self.edges[k].update(self.trait_impls[f])
                elif f and f in self.trait_impls:
                    self.edges[k].update(self.trait_impls[f])

    def callers_of(self, callee):
        return [k for k, e in self.calls.items() if any(c == callee or f == callee for f, c, _v in e["calls"])]

    def reach(self, entries, stop=()):
        seen = set()
        st = [e for e in entries if e in self.db.mir]
        seen.update(st)
        parent = {e: None for e in st}
        while st:
            x = st.pop()
            for y in self.edges.get(x, ()):
                if y not in seen and y not in stop:
                    seen.add(y)
                    parent[y] = x
                    st.append(y)
        self.parent = parent
        return seen

    def path_to(self, fn):
        p = []
        x = fn
        while x is not None:
            p.append(x)
            x = self.parent.get(x)
        return list(reversed(p))


def receiver_origin(db, body, tm, t):
    """For unwrap-like calls: the call term that produced the Option/Result being unwrapped."""
    if not t["args"]:
        return None
    x = tm.operand(t["args"][0])
    seen = 0
    while isinstance(x, tuple) and seen < 6:
        seen += 1
        if x[0] == "call":
            return x
        if x[0] in ("field", "variant", "cast"):
            x = x[1]
            continue
        break
    return None


def sites_of(db, fn, include_overflow=False, tm=None):
    """Panic sites in one MIR body: list of dict(kind, callee, block, line, key, extra).
    Keys carry no line numbers: <fn>|<kind>@<what or producer of the unwrapped value>|<ordinal>."""
    body = db.mir[fn]
    out = []
    counter = defaultdict(int)
    tm = tm or Terms(body, db)

    def add(kind, what, blk, line, extra=None):
        origin = None
        oterm = None
        if kind == "unwrap":
            oterm = receiver_origin(db, body, tm, extra)
            if oterm is not None:
                origin = oterm[3] if (oterm[3] or "").startswith("<") else oterm[1]
        stub = "%s@%s" % (kind, origin or what)
        n = counter[stub]
        counter[stub] += 1
        out.append({"fn": fn, "kind": kind, "what": what, "block": blk, "line": line,
                    "key": "%s|%s|%d" % (fn, stub, n), "extra": extra, "origin": origin, "oterm": oterm})

    for i, b in enumerate(body["blocks"]):
        if b.get("cleanup"):
            continue
        t = b["t"]
        if t["k"] == "Call":
            c = mir_callee(t) or ""
            f = t.get("f") or ""
            if f in UNWRAPS:
                add("unwrap", f.split("::")[-1], i, t["l"], t)
            elif f.startswith(PANIC_FNS_PREFIX) or c.startswith(PANIC_FNS_PREFIX):
                add("panic", f.split("::")[-1], i, t["l"], t)
            elif f in INDEX_FNS:
                fg = t.get("fg", "")
                cont = "HashMap" if "HashMap" in fg else "BTreeMap" if "BTreeMap" in fg else \
                    "Vec" if "std::vec::Vec" in fg else "slice" if fg.startswith("<[") else "other"
                add("index", cont, i, t["l"], t)
            elif f in MAY_PANIC:
                add("maypanic", f.split("::")[-1], i, t["l"], t)
        elif t["k"] == "Assert":
            ak = t["ak"]
            if ak == "Bounds":
                add("bounds", "slice", i, t["l"], t)
            elif ak in ("DivZero", "RemZero"):
                add("divzero", ak, i, t["l"], t)
            elif ak in ("Overflow", "OverflowNeg") and include_overflow:
                add("overflow", t["detail"]["op"] if t["detail"] else "neg", i, t["l"], t)
    return out


def auto_discharge(db, body, tm, site):
    """Guards recognisable on MIR without knowledge of falcon: constant index < constant length."""
    t = site["extra"]
    if site["kind"] == "bounds":
        d = t["detail"]
        tl, ti = tm.operand(d["len"]), tm.operand(d["index"])
        ln = tl[1] if tl[0] == "const" else None
        ix = ti[1] if ti[0] == "const" else None
        if ln is not None and ix is not None and ix < ln:
            return "constant index %d into fixed-size array of %d" % (ix, ln)
    if site["kind"] == "divzero":
        c = tm.operand(t["cond"])
        # cond is `divisor == 0` (asserted false); a non-zero literal divisor can never trip it
        if c[0] == "bin" and c[1] == "Eq" and c[2][0] == "const" and c[3][0] == "const" and c[2][1] != c[3][1]:
            return "division by the non-zero literal %d" % c[2][1]
    return None


def _parent_fn(fn):
    return fn.split("::{closure")[0]


def _file_of_key(db, fn):
    """Source file of the function a (possibly stale) site key names: the function itself, or the nearest enclosing path that
    still exists in the crate."""
    cache = getattr(db, "_key_file_cache", None)
    if cache is None:
        cache = db._key_file_cache = {}
    if fn in cache:
        return cache[fn]
    out = None
    try:
        out = db.mir.file_of(fn)
    except KeyError:
        segs = fn.split("::")
        keys = list(db.mir.keys())
        for n in range(len(segs) - 1, 0, -1):
            pre = "::".join(segs[:n]) + "::"
            hit = next((k for k in keys if k.startswith(pre)), None)
            if hit is not None:
                out = db.mir.file_of(hit)
                break
    cache[fn] = out
    return out


def _per_site(stub):
    """Sites whose safety is a fact about the operands at that very site (the sort check of an IL constructor): a review of one
    such site says nothing about another, so they are never matched by producer class - only exactly, or per function / file
    under the count guard (one more such site than reviewed is reported)."""
    return "@il::expression::Expression::" in stub or "@il::constant::Constant::" in stub


def _stub_class(stub):
    """`unwrap@a::b::Type::<T>::method` -> `unwrap@Type::<T>::method`: the producer without the module it lives in."""
    kind, _, origin = stub.partition("@")
    segs = origin.split("::")
    for i, sg in enumerate(segs):
        if sg[:1].isupper():
            return kind + "@" + "::".join(segs[i:])
    return stub


def reach_rule(db, rep, r, entries, scope_prefixes=None, allow=None, site_allow=None, stop=(), floor=None,
               graph=None, extra_discharge=None):
    """Every panic site in local functions reachable from `entries` must be discharged.
    allow: {"<kind>@<origin callee>": reason} for unwrap-like sites keyed by the producer of the value;
    site_allow: {site key: reason}."""
    allow = allow or {}
    site_allow = site_allow or {}
    # A reviewed site stands for its *class*: (source file, kind@producer).  The same kind of site on a value from the same
    # producer, anywhere in that file, is covered by the same reason - so extracting a helper, renaming a function or turning a
    # closure into a loop does not invalidate the review, while a new kind of site or a new producer in the file is reported.
    # Sites without a producer (index / bounds / explicit panic) are matched per enclosing function, ignoring closure nesting and
    # ordinals, and only while the function has no more sites of that kind than were reviewed; when the function itself is gone
    # (renamed, split), per source file under the same count guard.
    class_allow, fn_allow, file_allow = {}, {}, {}
    file_counts = {}
    for k, why in site_allow.items():
        parts = k.split("|")
        if len(parts) < 2:
            continue
        if parts[1].startswith("unwrap@") and not _per_site(parts[1]):
            f0 = _file_of_key(db, parts[0])
            if f0 is not None:
                class_allow.setdefault((f0, _stub_class(parts[1])), why)
        else:
            fn_allow.setdefault((_parent_fn(parts[0]), parts[1]), []).append(why)
            f0 = _file_of_key(db, parts[0])
            if f0 is not None:
                file_allow.setdefault((f0, parts[1]), []).append(why)
    g = graph or call_graph(db)
    missing = [e for e in entries if e not in db.mir]
    rep.anchor(not missing, "entry points %s" % missing)
    reach = g.reach(entries, stop=stop)
    _tcache = {}
    nsites = 0
    used_allow = set()
    site_counts = {}
    for fn in reach:
        if scope_prefixes and not fn.startswith(tuple(scope_prefixes)) and not any(p in fn for p in scope_prefixes):
            continue
        tm_ = terms_of(db, fn, _tcache)
        for s in sites_of(db, fn, tm=tm_):
            # only sites that need a review count (constant indices into fixed arrays etc. discharge themselves)
            if auto_discharge(db, db.mir[fn], tm_, s) is not None:
                continue
            if extra_discharge is not None and s["key"] not in site_allow and extra_discharge(db, db.mir[fn], tm_, s) is not None:
                continue
            fk = (_parent_fn(fn), s["key"].split("|")[1])
            site_counts[fk] = site_counts.get(fk, 0) + 1
            ck_ = (db.mir.file_of(fn), s["key"].split("|")[1])
            file_counts[ck_] = file_counts.get(ck_, 0) + 1
    for fn in sorted(reach):
        if scope_prefixes and not fn.startswith(tuple(scope_prefixes)) and not any(p in fn for p in scope_prefixes):
            continue
        rep.analysed(fn)
        body = db.mir[fn]
        tm = terms_of(db, fn, _tcache)
        ss = sites_of(db, fn, tm=tm)
        if not ss:
            continue
        for s in ss:
            nsites += 1
            rep.call_sites += 1
            where = db.where(body, s["line"])
            reason = auto_discharge(db, body, tm, s)
            if reason is None and s["key"] in site_allow:
                reason = site_allow[s["key"]]
                used_allow.add(s["key"])
            if reason is None:
                stub = s["key"].split("|")[1]
                ck = (db.mir.file_of(fn), stub)
                fk = (_parent_fn(fn), stub)
                if stub.startswith("unwrap@") and not _per_site(stub):
                    ck = (db.mir.file_of(fn), _stub_class(stub))
                if stub.startswith("unwrap@") and not _per_site(stub) and ck in class_allow:
                    reason = "same class as a reviewed site (%s in %s): %s" % (ck[1], ck[0], class_allow[ck])
                    used_allow.add("class:%s|%s" % ck)
                elif fk in fn_allow and site_counts.get(fk, 0) <= len(fn_allow[fk]):
                    reason = "reviewed site of %s (%s): %s" % (fk[0].split("::")[-1], stub, fn_allow[fk][0])
                    used_allow.add("fn:%s|%s" % fk)
                elif ck in file_allow and file_counts.get(ck, 0) <= len(file_allow[ck]):
                    # the enclosing function was renamed / split: the file still has no more sites of this kind than were reviewed
                    reason = "reviewed site of this file (%s): %s" % (stub, file_allow[ck][0])
                    used_allow.add("file:%s|%s" % ck)
            if reason is None and s["kind"] == "unwrap" and s["oterm"] is not None:
                k = "unwrap@%s" % s["origin"]
                if k in allow:
                    ent = allow[k]
                    if isinstance(ent, tuple):
                        if ent[1](s["oterm"]):
                            reason = ent[0]
                            used_allow.add(k)
                    else:
                        reason = ent
                        used_allow.add(k)
            if reason is None and extra_discharge is not None:
                reason = extra_discharge(db, body, tm, s)
            if reason is not None:
                r.ok(s["key"], where, detail={"discharged_by": reason})
            else:
                path = g.path_to(fn)
                r.bad(s["key"], where,
                      "panic site %s@%s%s reachable via %s" % (
                          s["kind"], s["what"], (" on value from " + s["origin"]) if s.get("origin") else "",
                          " -> ".join(p.split("::")[-1] for p in path[-5:])),
                      detail={"path": path})
    rep.notes.append({"%s_reachable_functions" % r.id: len(reach), "%s_sites" % r.id: nsites,
                      "%s_allow_used" % r.id: sorted(used_allow)})
    if floor:
        r.floor(floor, "panic sites reachable on the pinned tree")
    return reach
