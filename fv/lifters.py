"""Shared extraction for the lifter properties (C01, C02, C03, C05, C06): dispatch / terminator tables of
the four translate_block functions, handler census, entry/exit must-pass, panic reach."""
from armlib import Arm, arm_table, base_ty, last_seg, unq
from db import Cfg, callee, int_lit, mir_callee, mir_calls, walk

TB = {
    "x86": "translator::x86::translator::translate_block",
    "mips": "translator::mips::translate_block",
    "ppc": "translator::ppc::translate_block",
    "aarch64": "translator::aarch64::translate_block",
}
INSN_TY = {"x86": "x86_insn", "mips": "mips_insn", "ppc": "ppc_insn", "aarch64": "bad64::Op"}


SUCC_TY = "(u64, std::option::Option<il::expression::Expression>)"
GRAPH_TY = "il::control_flow_graph::ControlFlowGraph)"


def _pushes(db, owner, node, elem_ty, depth=0):
    """Number of `push` calls on a vector of the given element type in the node, counting those made by crate functions the
    node hands such a vector to (the collections are identified by their type, not by the name of a local)."""
    n = 0
    for x in walk(node):
        if x.get("k") == "MethodCall" and x["name"] == "push":
            t = x["recv"].get("t")
            ts = owner["types"][t] if t is not None and t < len(owner["types"]) else ""
            if elem_ty in ts:
                n += 1
        elif db is not None and depth < 2 and x.get("k") in ("Call", "MethodCall"):
            c = callee(x) or ""
            h = db.hir.get(c) if c.startswith("translator::") and "::semantics::" not in c else None
            if h is not None and any(elem_ty in (i or "") for i in (h.get("inputs") or [])):
                n += _pushes(db, h, h["body"], elem_ty, depth + 1)
    return n


class InsnMatch:
    def __init__(self, body, node, db=None):
        self.node = node
        self.line = node["l"]
        self.arms = []
        for a in arm_table(node):
            ids = [last_seg(v) for v in a.variants]
            cs = a.callees()
            handlers = [c for c in cs if c.startswith("translator::") and "::semantics::" in c and last_seg(c)[0].islower()]
            info = {
                "ids": ids, "wild": a.wild, "line": a.line, "handlers": handlers, "callees": cs, "arm": a,
                "breaks": any(x.get("k") == "Break" for x in walk(a.body)),
                # an error answer: `return Err(..)`, or `Err(..)` as the arm's value in a helper whose result the caller propagates
                "returns_err": any(x.get("k") == "Ret" for x in walk(a.body)) or
                any(x.get("k") == "Call" and last_seg(x.get("fn", {}).get("ctor_of", "") or "") == "Err" for x in walk(a.body)),
                "succ_pushes": _pushes(db, body, a.body, SUCC_TY),
                "graph_pushes": _pushes(db, body, a.body, GRAPH_TY),
            }
            self.arms.append(info)

    def by_id(self):
        out = {}
        for a in self.arms:
            for i in a["ids"]:
                out[i] = a
        return out

    def default(self):
        for a in self.arms:
            if a["wild"]:
                return a
        return None


def insn_matches(db, arch):
    """The matches over the decoder's mnemonic type in translate_block and in the private functions of the architecture's
    translator module it delegates to (a dispatch factored out into a `lift_instruction` helper is still the dispatch).
    Order: the dispatch (most arms) first, then the others in source order."""
    hb = db.hir[TB[arch]]
    mod = TB[arch].rsplit("::", 1)[0] + "::"
    owners = [hb]
    seen = {TB[arch]}
    work = [hb]
    while work:
        b = work.pop()
        for n in walk(b["body"]):
            c = callee(n) or ""
            if c in seen or not c.startswith("translator::") or "::semantics::" in c or c not in db.hir:
                continue
            if not c.startswith(mod.split("::")[0] + "::" + mod.split("::")[1] + "::"):
                continue
            seen.add(c)
            h = db.hir[c]
            if h.get("vis") == "Public" and not c.startswith(mod):
                continue
            owners.append(h)
            work.append(h)
    out = []
    for ob in owners:
        for n in walk(ob["body"]):
            if n.get("k") == "Match" and n.get("src") == "Normal":
                t = n["scrut"].get("t")
                ts = ob["types"][t] if t is not None else ""
                if INSN_TY[arch] in ts:
                    m = InsnMatch(ob, n, db)
                    m.owner = ob
                    out.append(m)
    out.sort(key=lambda m: m.line)
    if out:
        disp = max(out, key=lambda m: len(m.arms))
        out = [disp] + [m for m in out if m is not disp]
    return hb, out


def handlers_of(db, arch):
    """All handler functions (taking &mut ControlFlowGraph) in the architecture's semantics module."""
    mod = {"x86": "translator::x86::semantics::Semantics::", "mips": "translator::mips::semantics::",
           "ppc": "translator::ppc::semantics::", "aarch64": "translator::aarch64::semantics::"}[arch]
    out = []
    for k in db.hir.keys():
        if not k.startswith(mod) or "::{closure#" in k or "::tests" in k:
            continue
        h = db.hir[k]
        ins = h.get("inputs") or []
        # a handler fills the graph and answers Ok(()); helpers that return a value (block indices ...) are plumbing
        if any("&mut il::control_flow_graph::ControlFlowGraph" in i for i in ins) and h.get("output", "").startswith("std::result::Result<(),"):
            out.append(k)
    return sorted(out)


def entry_exit_rule(db, rep, r, fns):
    """K6: every path to an Ok return of a handler passes set_entry and set_exit on the graph, directly or through a
    callee that does (summaries computed to a fixed point)."""
    sets_both = set()
    bodies = {f: db.mir[f] for f in fns if f in db.mir}
    # plumbing of the same modules that also receives the graph (e.g. a scaffold helper that creates the block, runs a closure
    # and sets entry/exit, whatever it returns) takes part in the summaries, not in the verdicts
    judged = set(bodies)
    prefixes = {f.rsplit("::", 1)[0] + "::" for f in bodies}
    for k in db.hir.keys():
        if k in bodies or "::{closure#" in k or "::tests" in k or not k.startswith(tuple(prefixes)) or k not in db.mir:
            continue
        if any("&mut il::control_flow_graph::ControlFlowGraph" in i for i in (db.hir[k].get("inputs") or [])):
            bodies[k] = db.mir[k]
    changed = True
    verdict = {}
    while changed:
        changed = False
        for f, body in bodies.items():
            if f in sets_both:
                continue
            cfg = Cfg(body)
            se, sx = [], []
            for i, t in mir_calls(body):
                c = mir_callee(t) or ""
                if c == "il::control_flow_graph::ControlFlowGraph::set_entry" or c in sets_both:
                    se.append(i)
                if c == "il::control_flow_graph::ControlFlowGraph::set_exit" or c in sets_both:
                    sx.append(i)
                if c == "il::control_flow_graph::ControlFlowGraph::append":
                    # appending a graph that has entry/exit keeps/sets both (append requires them)
                    pass
            oks = [i for i, b in enumerate(body["blocks"]) for s in b["s"]
                   if s.get("rv", {}).get("variant") == "std::prelude::v1::Ok" and s["d"] == [0]]
            good = bool(oks)
            if not oks:
                # pure delegation: the function returns the result of a callee that sets both
                rets = [t for i, t in mir_calls(body) if t.get("d") == [0] and
                        not (t.get("f") or "").endswith("FromResidual::from_residual")]
                if rets and all((mir_callee(t) or "") in sets_both for t in rets):
                    good = True
                    oks = [-1]
            for o in oks:
                if o < 0:
                    continue
                reach_wo_e = cfg.reachable(0, avoid=se)
                reach_wo_x = cfg.reachable(0, avoid=sx)
                if o in reach_wo_e or o in reach_wo_x:
                    good = False
            verdict[f] = (good, len(oks))
            if good:
                sets_both.add(f)
                changed = True
    for f in sorted(judged):
        good, noks = verdict.get(f, (False, 0))
        rep.analysed(f)
        if noks == 0:
            r.open("%s|entry_exit" % f, db.where(bodies[f]), "no Ok return found")
        else:
            r.decide(good, "%s|entry_exit" % f, db.where(bodies[f]),
                     "%s can return Ok without having set the graph's entry and exit" % last_seg(f))
    return sets_both
