"""Dependence of a MIR value on marker calls (data + control), independent of local names and statement layout.

`Dep(db, fn, marker)` answers: on which marker calls (e.g. `other.entry()`, `other.exit()`) can the value of a local, read in a
given block, depend?

  * data: the operands of every definition of the local, transitively; a call contributes its arguments, the marker label of
    its callee, and -- for callees whose MIR is available -- the labels its return value depends on (summary, same analysis);
    a closure aggregate contributes every marker called inside the closure;
  * mutation through a borrow: `t = &mut l; f(t, a, b)` is a definition of `l` from `a`, `b`;
  * control: only for locals with several definitions, and only through a branch that *selects between* definitions as seen
    from the point of use U: a SwitchInt j from at least two of whose successors U is reachable and whose successors reach
    different sets of the local's definition sites (without passing j again).  A branch that merely decides whether U is
    reached at all (an early error return, a validity check after the definitions) does not make the value depend on it.

Field-insensitive on locals; over-approximates dependence (never misses a data path through the constructs above).
"""
from db import Cfg, mir_callee, op_place


def _places(x, out):
    """Every local mentioned by operands / places inside a MIR JSON fragment."""
    if isinstance(x, dict):
        for k, v in x.items():
            if k in ("c", "m", "p") and isinstance(v, list) and v and isinstance(v[0], int):
                out.add(v[0])
                for pr in v[1:]:
                    # index projections mention a local as `[_N]`
                    if isinstance(pr, str) and pr.startswith("[_") and pr[2:-1].isdigit():
                        out.add(int(pr[2:-1]))
            else:
                _places(v, out)
    elif isinstance(x, list):
        for y in x:
            _places(y, out)


class Dep:
    def __init__(self, db, fn, marker, _stack=None, _summaries=None):
        self.db, self.fn, self.marker = db, fn, marker
        self.body = db.mir[fn]
        self.cfg = Cfg(self.body)
        self.stack = _stack if _stack is not None else [fn]
        self.summaries = _summaries if _summaries is not None else {}
        self.defs = {}          # local -> [(block, uses:set, labels:set)]
        self.memo = {}
        self._reach = {}
        mutref = {}             # tmp -> local it mutably borrows
        for bi, b in enumerate(self.body["blocks"]):
            for s in b["s"]:
                rv = s.get("rv", {})
                if rv.get("k") in ("Ref", "RawPtr") and rv.get("mut") and len(s["d"]) == 1:
                    mutref[s["d"][0]] = rv["p"][0]
        # reborrows: t2 = &mut *t1
        changed = True
        while changed:
            changed = False
            for t, l in list(mutref.items()):
                if l in mutref and mutref[l] != l and mutref[t] != mutref[l]:
                    mutref[t] = mutref[l]
                    changed = True
        self.mutref = mutref
        for bi, b in enumerate(self.body["blocks"]):
            for s in b["s"]:
                if "d" not in s:
                    continue
                uses, labels = set(), set()
                rv = s.get("rv", {})
                _places(rv, uses)
                if rv.get("k") == "Aggregate" and "closure" in rv:
                    labels |= self.closure_labels(rv["closure"])
                self.defs.setdefault(s["d"][0], []).append((bi, uses, labels))
                # a write through a projection that dereferences a mutable borrow defines the borrowed local as well
                if len(s["d"]) > 1 and s["d"][0] in mutref:
                    self.defs.setdefault(mutref[s["d"][0]], []).append((bi, uses, labels))
            t = b["t"]
            if t["k"] == "Call":
                uses, labels = set(), set()
                _places(t.get("args", []), uses)
                c = mir_callee(t) or ""
                lab = marker(c, t)
                if lab:
                    labels.add(lab)
                else:
                    labels |= self.summary(c)
                    labels |= self.summary(t.get("f") or "") if t.get("f") != c else set()
                d = t.get("d")
                if d:
                    self.defs.setdefault(d[0], []).append((bi, uses, labels))
                for a in t.get("args", []):
                    pl = op_place(a)
                    if pl and pl[0] in mutref:
                        self.defs.setdefault(mutref[pl[0]], []).append((bi, uses, labels))

    # ------------------------------------------------------------------ summaries
    def closure_labels(self, cdef):
        out = set()
        cb = self.db.mir.get(cdef)
        if cb is None:
            return out
        for b in cb["blocks"]:
            t = b["t"]
            if t["k"] == "Call":
                c = mir_callee(t) or ""
                lab = self.marker(c, t)
                if lab:
                    out.add(lab)
                else:
                    out |= self.summary(c)
        return out

    def summary(self, callee):
        """Labels the return value of a crate function can depend on."""
        if callee not in self.db.mir or callee in self.stack:
            return set()
        if callee in self.summaries:
            return self.summaries[callee]
        self.summaries[callee] = set()
        d = Dep(self.db, callee, self.marker, self.stack + [callee], self.summaries)
        out = set()
        for r in d.cfg.returns():
            out |= d.deps(0, r)
        self.summaries[callee] = out
        return out

    # ------------------------------------------------------------------ queries
    def reach(self, s, avoid):
        k = (s, avoid)
        if k not in self._reach:
            self._reach[k] = self.cfg.reachable(s, avoid=[avoid] if avoid is not None else [])
        return self._reach[k]

    def selectors(self, sites, use_block):
        """Switch blocks that select between the definition sites as seen from use_block."""
        out = []
        for j, b in enumerate(self.body["blocks"]):
            if b["t"]["k"] != "SwitchInt":
                continue
            succs = []
            for s in self.cfg.succ[j]:
                if s not in succs:
                    succs.append(s)
            live = [s for s in succs if use_block in self.reach(s, None) or s == use_block]
            if len(live) < 2:
                continue
            sets = {frozenset(x for x in sites if x in self.reach(s, j)) for s in live}
            if len(sets) > 1:
                out.append(j)
        return out

    def deps(self, l, use_block, _vis=None):
        key = (l, use_block)
        if key in self.memo:
            return self.memo[key]
        vis = _vis if _vis is not None else set()
        if key in vis:
            return set()
        vis.add(key)
        out = set()
        ds = [d for d in self.defs.get(l, []) if use_block in self.reach(d[0], None) or d[0] == use_block]
        for bi, uses, labels in ds:
            out |= labels
            for u in uses:
                if u != l:
                    out |= self.deps(u, bi, vis)
        sites = sorted({d[0] for d in ds})
        if len(sites) > 1:
            for j in self.selectors(sites, use_block):
                pl = op_place(self.body["blocks"][j]["t"]["discr"])
                if pl:
                    out |= self.deps(pl[0], j, vis)
        if _vis is None:
            self.memo[key] = out
        return out
