"""Fact base access: HIR bodies, MIR bodies, items; generic tree/CFG utilities."""
import json
import os
from collections import defaultdict, deque


import re
# an inherent impl that lives in another module than its type is printed `module::<impl Type<args>>::item` by rustc; the same
# item in the type's own module is `Type::<args>::item`.  Moving an impl block into a submodule must not rename its items.
_IMPL_G = re.compile(r"(?:[A-Za-z_][A-Za-z_0-9]*::)+<impl ((?:[A-Za-z_][A-Za-z_0-9]*::)*[A-Za-z_][A-Za-z_0-9]*)<([^<>]*)>>::")
_IMPL_P = re.compile(r"(?:[A-Za-z_][A-Za-z_0-9]*::)+<impl ((?:[A-Za-z_][A-Za-z_0-9]*::)*[A-Za-z_][A-Za-z_0-9]*)>::")


def canon_paths(line):
    if "<impl " in line:
        line = _IMPL_G.sub(lambda m: "%s::<%s>::" % (m.group(1), m.group(2)), line)
        line = _IMPL_P.sub(lambda m: "%s::" % m.group(1), line)
    return line


class LazyBodies:
    """def path -> parsed JSON body, parsed on first access (the fact files are large).

    A private free item that was moved to a sibling module keeps answering to its old path: a lookup that misses is
    resolved to the unique item of the same name under the same two leading path segments (never ambiguous ones)."""

    def _alias(self, k):
        hit = self._aliases.get(k)
        if hit is not None or k in self._aliases:
            return hit
        segs = k.split("::")
        res = None
        if len(segs) >= 3 and "{closure#" not in k:
            typed = len(segs) >= 2 and (segs[-2][:1].isupper() or "<" in segs[-2])
            tail = segs[-2:] if typed else segs[-1:]
            if typed and segs[-2].startswith("<") and len(segs) >= 4:
                tail = segs[-3:]          # Type::<Args>::item
            # only ever the head of the *type* may differ for a method; for free items only the module segments in between
            cands = [c for c in self._raw if c.split("::")[-len(tail):] == tail and c.split("::")[:2] == segs[:2]
                     and "{closure#" not in c]
            if not cands:
                # e.g. a function nested in a method that became a free function of a sibling module
                cands = [c for c in self._raw if c.split("::")[-len(tail):] == tail and c.split("::")[:1] == segs[:1]
                         and "{closure#" not in c]
            if len(cands) == 1:
                res = cands[0]
        self._aliases[k] = res
        return res

    def __init__(self, path):
        self._raw = {}
        self._parsed = {}
        self._file = {}
        self._aliases = {}
        with open(path) as fh:
            for line in fh:
                line = canon_paths(line)
                # rustc prints `core` through a visible re-export of a dependency (bitflags::core::...)
                if "bitflags::core::" in line:
                    line = line.replace("bitflags::core::", "core::")
                # every line starts with {"def":"<path>","dk":...,"file":"<file>"
                i = line.index('","dk":')
                d = json.loads(line[7:i + 1])
                self._raw[d] = line
                j = line.find('"file":"', i)
                k = line.find('"', j + 8)
                self._file[d] = line[j + 8:k]

    def __contains__(self, k):
        return k in self._raw or self._alias(k) is not None

    def __len__(self):
        return len(self._raw)

    def __iter__(self):
        return iter(self._raw)

    def keys(self):
        return self._raw.keys()

    def __getitem__(self, k):
        v = self._parsed.get(k)
        if v is None:
            if k not in self._raw:
                a = self._alias(k)
                if a is None:
                    raise KeyError(k)
                k = a
                v = self._parsed.get(k)
                if v is not None:
                    return v
            v = json.loads(self._raw[k])
            self._parsed[k] = v
        return v

    def get(self, k, default=None):
        return self[k] if k in self else default

    def items(self):
        for k in self._raw:
            yield k, self[k]

    def values(self):
        for k in self._raw:
            yield self[k]

    def file_of(self, k):
        return self._file[k] if k in self._file else self._file[self._alias(k)]

    def in_file(self, suffix):
        return [k for k, f in self._file.items() if f.endswith(suffix)]

    def mentioning(self, *needles):
        """Keys of bodies whose raw fact line contains every needle (cheap pre-filter before parsing)."""
        return [k for k, l in self._raw.items() if all(n in l for n in needles)]


class DB:
    def __init__(self, d):
        self.dir = d
        self.meta = json.load(open(os.path.join(d, "meta.json")))
        self._hir = None
        self._mir = None
        self._items = None
        self._closure_children = None

    # ---------------------------------------------------------------- loading
    @property
    def hir(self):
        if self._hir is None:
            self._hir = LazyBodies(os.path.join(self.dir, "hir.jsonl"))
        return self._hir

    @property
    def mir(self):
        if self._mir is None:
            self._mir = LazyBodies(os.path.join(self.dir, "mir.jsonl"))
        return self._mir

    @property
    def items(self):
        if self._items is None:
            self._items = []
            for l in open(os.path.join(self.dir, "items.jsonl")):
                self._items.append(json.loads(l))
        return self._items

    def item(self, path):
        for i in self.items:
            if i["def"] == path:
                return i
        return None

    def adt(self, path):
        for i in self.items:
            if i["def"] == path and i["dk"] in ("Struct", "Enum"):
                return i
        # a type moved to a sibling module (and re-exported): the unique type of that name under the same leading segments
        segs = path.split("::")
        cands = [i for i in self.items if i["dk"] in ("Struct", "Enum") and i["def"].split("::")[-1] == segs[-1]
                 and i["def"].split("::")[:2] == segs[:2]]
        return cands[0] if len(cands) == 1 else None

    def hir_in(self, file_suffix):
        return [self.hir[k] for k in self.hir.in_file(file_suffix)]

    def mir_in(self, file_suffix):
        return [self.mir[k] for k in self.mir.in_file(file_suffix)]

    def closures_of(self, parent):
        if self._closure_children is None:
            self._closure_children = defaultdict(list)
            for k in self.mir.keys():
                i = k.find("::{closure#")
                if i >= 0:
                    self._closure_children[k[:i]].append(k)
        return self._closure_children.get(parent, [])

    def where(self, body, line=None):
        return "%s:%s" % (body["file"], line if line is not None else body["line"])


# -------------------------------------------------------------------- HIR walking
CHILD_KEYS = (
    "es", "recv", "fe", "args", "a", "b", "e", "init", "c", "then", "else", "scrut",
    "lhs", "rhs", "i", "base", "els",
)


def children(n):
    """Direct child expression nodes of a HIR node (expr / block / stmt / arm)."""
    if not isinstance(n, dict):
        return
    for k in CHILD_KEYS:
        v = n.get(k)
        if isinstance(v, dict):
            yield v
        elif isinstance(v, list):
            for x in v:
                if isinstance(x, dict):
                    yield x
    if isinstance(n.get("body"), dict):
        yield n["body"]
    for s in n.get("stmts", ()) or ():
        if s.get("k") == "Let":
            if "init" in s:
                yield s["init"]
            if "els" in s:
                yield s["els"]
        elif s.get("k") == "Expr":
            yield s["e"]
    if isinstance(n.get("expr"), dict):
        yield n["expr"]
    for a in n.get("arms", ()) or ():
        if "guard" in a:
            yield a["guard"]
        yield a["body"]
        for g in pat_guards(a["pat"]):
            yield g
    for f in n.get("fields", ()) or ():
        if isinstance(f, dict) and "e" in f:
            yield f["e"]
    if n.get("k") == "LetExpr":
        for g in pat_guards(n["pat"]):
            yield g


def pat_guards(p):
    if not isinstance(p, dict):
        return
    if p.get("k") == "Guard":
        yield p["g"]
    for k in ("p", "sub"):
        if isinstance(p.get(k), dict):
            yield from pat_guards(p[k])
    for k in ("ps", "before", "after"):
        for x in p.get(k, ()) or ():
            yield from pat_guards(x)
    for f in p.get("fields", ()) or ():
        yield from pat_guards(f.get("p"))


def walk(n):
    """Pre-order walk over all expression nodes under n (including closures)."""
    stack = [n]
    while stack:
        x = stack.pop()
        yield x
        ch = list(children(x))
        ch.reverse()
        stack.extend(ch)


def all_patterns(n):
    """Every pattern under n, wherever it binds: `if let` / `while let` conditions, `let` statements (with or without
    `else`), match arms and closure parameters."""
    for x in walk(n):
        if x.get("k") == "LetExpr" and isinstance(x.get("pat"), dict):
            yield x["pat"]
        for s in x.get("stmts", ()) or ():
            if s.get("k") == "Let" and isinstance(s.get("pat"), dict):
                yield s["pat"]
        for a in x.get("arms", ()) or ():
            if isinstance(a.get("pat"), dict):
                yield a["pat"]
        if x.get("k") == "Closure":
            for p in x.get("params", ()) or ():
                if isinstance(p, dict):
                    yield p


def callee(n):
    """Resolved callee def path of a Call / MethodCall / overloaded operator node, else None."""
    k = n.get("k")
    if k == "Call":
        f = n.get("fn")
        if f:
            return f.get("def") or f.get("selfctor")
        return None
    if k in ("MethodCall", "Binary", "Unary", "Index", "AssignOp"):
        return n.get("m")
    return None


def calls(n):
    for x in walk(n):
        c = callee(x)
        if c:
            yield x, c


def call_args(n):
    """Uniform argument list: receiver first for method calls."""
    if n.get("k") == "MethodCall":
        return [n["recv"]] + n["args"]
    if n.get("k") == "Call":
        return n["args"]
    if n.get("k") in ("Binary", "AssignOp"):
        return [n.get("a", n.get("lhs")), n.get("b", n.get("rhs"))]
    return []


def pat_leaves(p):
    """Alternatives of a pattern as a flat list of non-Or patterns."""
    if p.get("k") == "Or":
        out = []
        for x in p["ps"]:
            out.extend(pat_leaves(x))
        return out
    return [p]


def pat_path(p):
    """Def path a pattern names (variant / const), looking through refs and boxes."""
    k = p.get("k")
    if k in ("Path", "Struct", "TupleStruct"):
        pa = p["path"]
        return pa.get("ctor_of") or pa.get("def")
    if k in ("Ref", "Box", "Deref"):
        return pat_path(p["p"])
    if k == "Bind" and "sub" in p:
        return pat_path(p["sub"])
    return None


def pat_bindings(p, out=None):
    """All bindings in a pattern: list of (name, hid, path) where path describes position."""
    if out is None:
        out = []

    def rec(q, pos):
        k = q.get("k")
        if k == "Bind":
            out.append((q["name"], q["hid"], tuple(pos)))
            if "sub" in q:
                rec(q["sub"], pos)
        elif k in ("Ref", "Box", "Deref", "Guard"):
            rec(q["p"], pos)
        elif k in ("TupleStruct", "Tuple"):
            for i, x in enumerate(q["ps"]):
                rec(x, pos + [i])
        elif k == "Struct":
            for f in q["fields"]:
                rec(f["p"], pos + [f["n"]])
        elif k == "Or":
            for x in q["ps"]:
                rec(x, pos)
        elif k == "Slice":
            for i, x in enumerate(q["before"]):
                rec(x, pos + [i])

    rec(p, [])
    return out


def strip(n):
    """Look through reference / deref / clone-like wrappers that do not change a value."""
    while True:
        k = n.get("k")
        if k == "AddrOf":
            n = n["e"]
        elif k == "Unary" and n.get("op") == "Deref":
            n = n["e"]
        elif k == "Block" and not n.get("stmts") and "expr" in n:
            n = n["expr"]
        else:
            return n


def local_of(n):
    n = strip(n)
    if n.get("k") == "Path" and "local" in n.get("res", {}):
        return n["res"]["hid"]
    return None


def int_lit(n):
    n = strip(n)
    if n.get("k") == "Lit" and "int" in n["v"]:
        return n["v"]["int"]
    if n.get("k") == "Cast":
        return int_lit(n["e"])
    if n.get("k") == "Unary" and n.get("op") == "Neg":
        v = int_lit(n["e"])
        return -v if v is not None else None
    return None


def str_lit(n):
    n = strip(n)
    if n.get("k") == "Lit" and "str" in n["v"]:
        return n["v"]["str"]
    return None


def ty(body, n, adjusted=False):
    i = n.get("ta") if adjusted and "ta" in n else n.get("t")
    return body["types"][i] if i is not None else None


# -------------------------------------------------------------------- MIR utilities
class Cfg:
    """Control-flow view of one MIR body."""

    def __init__(self, body, with_unwind=False):
        self.body = body
        self.blocks = body["blocks"]
        self.n = len(self.blocks)
        self.succ = [[] for _ in range(self.n)]
        for i, b in enumerate(self.blocks):
            t = b["t"]
            k = t["k"]
            if k == "Goto":
                self.succ[i].append(t["t"])
            elif k == "SwitchInt":
                for _, bb in t["targets"]:
                    self.succ[i].append(bb)
                self.succ[i].append(t["otherwise"])
            elif k in ("Call", "Drop", "Assert"):
                if "t" in t:
                    self.succ[i].append(t["t"])
                if with_unwind and "u" in t:
                    self.succ[i].append(t["u"])
        self.pred = [[] for _ in range(self.n)]
        for i, ss in enumerate(self.succ):
            for s in ss:
                self.pred[s].append(i)
        self._dom = None

    def reachable(self, start=0, avoid=()):
        avoid = set(avoid)
        seen = set()
        if start in avoid:
            return seen
        q = [start]
        seen.add(start)
        while q:
            x = q.pop()
            for s in self.succ[x]:
                if s not in seen and s not in avoid:
                    seen.add(s)
                    q.append(s)
        return seen

    def returns(self):
        return [i for i, b in enumerate(self.blocks) if b["t"]["k"] == "Return"]

    def dominators(self):
        if self._dom is not None:
            return self._dom
        n = self.n
        reach = self.reachable(0)
        order = []
        seen = set()

        def dfs(r):
            st = [(r, iter(self.succ[r]))]
            seen.add(r)
            while st:
                x, it = st[-1]
                adv = False
                for s in it:
                    if s not in seen:
                        seen.add(s)
                        st.append((s, iter(self.succ[s])))
                        adv = True
                        break
                if not adv:
                    order.append(x)
                    st.pop()

        dfs(0)
        rpo = list(reversed(order))
        idx = {b: i for i, b in enumerate(rpo)}
        idom = {0: 0}
        changed = True
        while changed:
            changed = False
            for b in rpo[1:]:
                ps = [p for p in self.pred[b] if p in idom]
                if not ps:
                    continue
                new = ps[0]
                for p in ps[1:]:
                    a, c = p, new
                    while a != c:
                        while idx[a] > idx[c]:
                            a = idom[a]
                        while idx[c] > idx[a]:
                            c = idom[c]
                    new = a
                if idom.get(b) != new:
                    idom[b] = new
                    changed = True
        self._dom = idom
        self._reach = reach
        return idom

    def dominates(self, a, b):
        idom = self.dominators()
        if b not in idom:
            return False
        x = b
        while True:
            if x == a:
                return True
            if x == 0:
                return False
            x = idom[x]

    def call_blocks(self, pred):
        """Blocks whose terminator is a Call for which pred(term) holds."""
        return [i for i, b in enumerate(self.blocks) if b["t"]["k"] == "Call" and pred(b["t"])]


def mir_callee(t):
    """Most specific resolved callee of a MIR Call terminator."""
    return t.get("r") or t.get("f")


def mir_calls(body):
    for i, b in enumerate(body["blocks"]):
        t = b["t"]
        if t["k"] == "Call":
            yield i, t


def op_local(op):
    """Base local of a Copy/Move operand with no projection, else None."""
    p = op.get("c") or op.get("m")
    if p is not None and len(p) == 1:
        return p[0]
    return None


def op_place(op):
    return op.get("c") or op.get("m")


def op_const_int(op):
    k = op.get("k")
    if k is not None and "int" in k:
        return k["int"]
    return None


def mir_type(body, local):
    return body["types"][body["locals"][local]]


def local_name(body, local):
    for nm, pl in body["names"]:
        if pl[0] == local and len(pl) == 1:
            return nm
    return "_%d" % local


class DefUse:
    """Flow-insensitive def sites per local for a MIR body (temporaries are single-assignment)."""

    def __init__(self, body):
        self.body = body
        self.defs = defaultdict(list)  # local -> [(bb, kind, payload)]
        for i, b in enumerate(body["blocks"]):
            for s in b["s"]:
                if "rv" in s and len(s["d"]) == 1:
                    self.defs[s["d"][0]].append((i, "assign", s["rv"]))
                elif "rv" in s:
                    self.defs[s["d"][0]].append((i, "partial", s))
            t = b["t"]
            if t["k"] == "Call" and len(t["d"]) == 1:
                self.defs[t["d"][0]].append((i, "call", t))

    def single(self, local):
        d = self.defs.get(local, [])
        return d[0] if len(d) == 1 else None

    def origin_calls(self, local, depth=8, seen=None):
        """Set of callee names whose results (transitively through moves, refs, casts, field
        projections, Option/Result plumbing) flow into `local`."""
        out = set()
        seen = seen if seen is not None else set()
        if local in seen or depth == 0:
            return out
        seen.add(local)
        for (_bb, kind, pay) in self.defs.get(local, []):
            if kind == "call":
                out.add(mir_callee(pay) or "?")
                for a in pay["args"]:
                    pl = op_place(a)
                    if pl is not None:
                        out |= self.origin_calls(pl[0], depth - 1, seen)
            elif kind == "assign":
                for l in rvalue_locals(pay):
                    out |= self.origin_calls(l, depth - 1, seen)
        return out


def rvalue_locals(rv):
    out = []
    for k in ("op", "a", "b"):
        o = rv.get(k)
        if isinstance(o, dict):
            pl = op_place(o)
            if pl is not None:
                out.append(pl[0])
    if "p" in rv:
        out.append(rv["p"][0])
    for o in rv.get("ops", ()) or ():
        pl = op_place(o)
        if pl is not None:
            out.append(pl[0])
    return out
