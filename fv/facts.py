"""Fact extraction: runs the fvdrv rustc_private driver over /repo's *current working tree*
and caches the resulting fact files keyed by a hash of the sources.

Nothing of falcon is executed: cargo +nightly check with the driver as RUSTC_WORKSPACE_WRAPPER
type-checks the crate and the driver dumps HIR/typeck, MIR and item facts as JSON lines.
"""
import fcntl
import glob
import hashlib
import json
import os
import shutil
import subprocess
import sys
import time

VERIF = os.path.dirname(os.path.dirname(os.path.abspath(__file__)))
REPO = os.environ.get("FV_REPO", "/repo")
CACHE = os.path.join(VERIF, ".cache")
DRIVER_DIR = os.path.join(VERIF, "driver")
DRIVER = os.path.join(DRIVER_DIR, "target", "release", "fvdrv")


def sysroot():
    return subprocess.check_output(["rustc", "+nightly", "--print", "sysroot"], text=True).strip()


def build_driver():
    if os.path.exists(DRIVER):
        srcs = glob.glob(os.path.join(DRIVER_DIR, "src", "*.rs")) + [os.path.join(DRIVER_DIR, "Cargo.toml")]
        if max(os.path.getmtime(s) for s in srcs) <= os.path.getmtime(DRIVER):
            return
    env = dict(os.environ, CARGO_NET_OFFLINE="true")
    subprocess.check_call(["cargo", "build", "--release", "--offline"], cwd=DRIVER_DIR, env=env)


def tree_hash(repo, features):
    h = hashlib.sha256()
    files = []
    for root, dirs, fs in os.walk(os.path.join(repo, "lib")):
        dirs.sort()
        for f in sorted(fs):
            files.append(os.path.join(root, f))
    for extra in ("Cargo.toml", "Cargo.lock"):
        p = os.path.join(repo, extra)
        if os.path.exists(p):
            files.append(p)
    for p in files:
        h.update(os.path.relpath(p, repo).encode())
        h.update(b"\0")
        with open(p, "rb") as fh:
            h.update(fh.read())
        h.update(b"\0")
    h.update(("features=" + features).encode())
    with open(DRIVER, "rb") as fh:
        h.update(hashlib.sha256(fh.read()).digest())
    return h.hexdigest()


def extract(features="", repo=None, target_dir=None, verbose=False):
    """Returns the directory holding hir.jsonl / mir.jsonl / items.jsonl / meta.json for the
    current tree of `repo` under the given cargo feature set ("" or "thread_safe")."""
    repo = repo or REPO
    build_driver()
    th = tree_hash(repo, features)
    tag = th[:20] + ("-" + features if features else "")
    out = os.path.join(CACHE, "facts", tag)
    meta = os.path.join(out, "meta.json")
    os.makedirs(os.path.join(CACHE, "facts"), exist_ok=True)
    # one lock per cargo target directory: experiments on scratch copies may use their own (FV_TARGET_DIR) and run in parallel
    tdir_ = target_dir or os.environ.get("FV_TARGET_DIR") or os.path.join(CACHE, "target" + ("-" + features if features else ""))
    os.makedirs(os.path.dirname(tdir_) or ".", exist_ok=True)
    lock = open(tdir_.rstrip("/") + ".lock", "w")
    fcntl.flock(lock, fcntl.LOCK_EX)
    try:
        if os.path.exists(meta):
            try:
                m = json.load(open(meta))
                if m.get("tree_hash") == th:
                    try:
                        os.utime(out, None)      # mark as in use: concurrent checks must not have it pruned under them
                    except OSError:
                        pass
                    return out
            except Exception:
                pass
        tmp = out + ".tmp%d" % os.getpid()
        shutil.rmtree(tmp, ignore_errors=True)
        os.makedirs(tmp)
        tdir = tdir_
        # cargo's freshness cache would skip the wrapper: force the member to be re-checked
        for fp in glob.glob(os.path.join(tdir, "debug", ".fingerprint", "falcon-*")):
            shutil.rmtree(fp, ignore_errors=True)
        env = dict(os.environ)
        env.update(
            {
                "LD_LIBRARY_PATH": os.path.join(sysroot(), "lib") + ":" + env.get("LD_LIBRARY_PATH", ""),
                "RUSTFLAGS": "-Zmir-opt-level=0 -Awarnings",
                "RUSTC_WORKSPACE_WRAPPER": DRIVER,
                "CARGO_TARGET_DIR": tdir,
                "CARGO_NET_OFFLINE": "true",
                "FV_FACTS_DIR": tmp,
                "FV_TREE_HASH": th,
                "FV_FEATURES": features,
            }
        )
        cmd = ["cargo", "+nightly", "check", "--offline", "--lib", "--quiet"]
        if features:
            cmd += ["--features", features]
        t0 = time.time()
        r = subprocess.run(cmd, cwd=repo, env=env, stdout=subprocess.PIPE, stderr=subprocess.STDOUT, text=True)
        if r.returncode != 0:
            sys.stderr.write(r.stdout[-4000:])
            shutil.rmtree(tmp, ignore_errors=True)
            raise SystemExit("fact extraction: cargo check failed (tree does not compile?) rc=%d" % r.returncode)
        if not os.path.exists(os.path.join(tmp, "meta.json")):
            sys.stderr.write(r.stdout[-4000:])
            shutil.rmtree(tmp, ignore_errors=True)
            raise SystemExit("fact extraction: driver did not run (no meta.json) -- cannot vouch")
        m = json.load(open(os.path.join(tmp, "meta.json")))
        if m.get("tree_hash") != th:
            raise SystemExit("fact extraction: stale fact file")
        _derive(tmp)
        shutil.rmtree(out, ignore_errors=True)
        os.rename(tmp, out)
        if verbose:
            print("extracted facts in %.1fs -> %s" % (time.time() - t0, out))
        _prune()
        return out
    finally:
        fcntl.flock(lock, fcntl.LOCK_UN)
        lock.close()


def _derive(d):
    """Derived, compact index of call edges per MIR body (so that rules need not parse every body)."""
    out = {}
    with open(os.path.join(d, "mir.jsonl")) as fh:
        for line in fh:
            if "bitflags::core::" in line:
                line = line.replace("bitflags::core::", "core::")
            b = json.loads(line)
            calls, closures, fnptrs = [], [], []

            def ops_of(rv):
                for kk in ("op", "a", "b"):
                    if isinstance(rv.get(kk), dict):
                        yield rv[kk]
                for o in rv.get("ops", ()) or ():
                    yield o

            def fnptr(o):
                c = o.get("k")
                if c and "fn" in c:
                    fnptrs.append([c["fn"], c.get("r")])

            for blk in b["blocks"]:
                for s in blk["s"]:
                    rv = s.get("rv")
                    if not rv:
                        continue
                    if rv["k"] == "Aggregate" and "closure" in rv:
                        closures.append(rv["closure"])
                    for o in ops_of(rv):
                        fnptr(o)
                t = blk["t"]
                if t["k"] == "Call":
                    for a in t["args"]:
                        fnptr(a)
                    calls.append([t.get("f"), t.get("r"), bool(t.get("virtual"))])
            out[b["def"]] = {"calls": calls, "closures": closures, "fnptrs": fnptrs}
    with open(os.path.join(d, "calls.json"), "w") as fh:
        json.dump(out, fh)


def _prune(keep=24, min_age=900):
    """Bound the cache: beyond the `keep` most recently used fact directories, remove those not used for a quarter of an hour (never one
    that a concurrently running check may still be reading)."""
    d = os.path.join(CACHE, "facts")
    ents = []
    for e in os.listdir(d):
        if ".tmp" in e:
            continue
        try:
            ents.append((os.path.getmtime(os.path.join(d, e)), os.path.join(d, e)))
        except OSError:
            pass
    ents.sort(reverse=True)
    now = time.time()
    for mt, e in ents[keep:]:
        if now - mt > min_age:
            shutil.rmtree(e, ignore_errors=True)


if __name__ == "__main__":
    feats = sys.argv[1] if len(sys.argv) > 1 else ""
    print(extract(feats, verbose=True))
