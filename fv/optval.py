"""Finite-case abstract evaluation of small HIR expressions over booleans / Options / opaque symbols.

Used for rules of the form "for each of these finitely many cases of the inputs, the function yields
X": reflexive equality, fallback chains of Option combinators, candidate filters. No falcon code runs;
the HIR tree is interpreted over the abstract domain
    T | F | none | some(v) | tuple(v..) | sym(name) | unknown
where sym(name) is an opaque value equal only to itself. Getter calls on opaque objects are answered by
a rule-supplied hook, otherwise named after callee and arguments (pure-getter assumption, stated in the
rule's evidence).
"""
from armlib import last_seg
from db import strip

T = ("bool", True)
F = ("bool", False)
NONE = ("none",)
UNK = ("unknown",)


def some(v):
    return ("some", v)


def sym(name):
    return ("sym", name)


class Return(Exception):
    def __init__(self, v):
        self.v = v


class Ev:
    def __init__(self, body, hook=None, max_steps=4000, distinct=False):
        self.body = body
        self.distinct = distinct  # differently named opaque symbols denote different values
        self.hook = hook or (lambda callee, recv, args, node: None)
        self.steps = 0
        self.max_steps = max_steps

    # ------------------------------------------------------------------ patterns
    def bind(self, pat, v, env):
        """Try to match value v against pattern; returns True/False/None(unknown); binds into env."""
        k = pat.get("k")
        if k == "Wild":
            return True
        if k == "Bind":
            env[pat["hid"]] = v
            if "sub" in pat:
                return self.bind(pat["sub"], v, env)
            return True
        if k in ("Ref", "Box", "Deref"):
            return self.bind(pat["p"], v, env)
        if k == "Tuple":
            if v[0] != "tuple":
                return None if v == UNK or v[0] == "sym" else False
            rs = [self.bind(p, x, env) for p, x in zip(pat["ps"], v[1])]
            if any(r is False for r in rs):
                return False
            if any(r is None for r in rs):
                return None
            return True
        if k in ("TupleStruct", "Path"):
            name = last_seg(pat["path"].get("ctor_of") or pat["path"].get("def") or "")
            if name == "Some":
                if v[0] == "some":
                    return self.bind(pat["ps"][0], v[1], env) if pat.get("ps") else True
                if v == NONE:
                    return False
                return None
            if name == "None":
                if v == NONE:
                    return True
                if v[0] == "some":
                    return False
                return None
            if name in ("Ok", "Err"):
                if v[0] == name.lower():
                    return self.bind(pat["ps"][0], v[1], env) if pat.get("ps") else True
                if v[0] in ("ok", "err"):
                    return False
                return None
            if v[0] == "variant":
                if v[1] != name:
                    return False
                if pat.get("ps"):
                    for p, x in zip(pat["ps"], v[2]):
                        self.bind(p, x, env)
                return True
            return None
        if k == "Or":
            rs = [self.bind(p, v, env) for p in pat["ps"]]
            if any(r is True for r in rs):
                return True
            if any(r is None for r in rs):
                return None
            return False
        if k == "Lit":
            lit = pat["v"]
            if "bool" in lit and v[0] == "bool":
                return v[1] == lit["bool"]
            return None
        return None

    # ------------------------------------------------------------------ expressions
    def ev(self, n, env):
        self.steps += 1
        if self.steps > self.max_steps:
            return UNK
        n = strip(n)
        k = n.get("k")
        if k == "Lit":
            if "bool" in n["v"]:
                return ("bool", n["v"]["bool"])
            if "int" in n["v"]:
                return ("int", n["v"]["int"])
            return sym("lit:%s" % (n["v"],))
        if k == "Path":
            r = n["res"]
            if "local" in r:
                return env.get(r["hid"], UNK)
            d = r.get("ctor_of") or r.get("def") or ""
            if last_seg(d) == "None":
                return NONE
            if "ctor_of" in r:
                return ("variant", last_seg(d), ())
            return sym(d)
        if k == "Block":
            return self.block(n, env)
        if k == "Tup":
            return ("tuple", tuple(self.ev(x, env) for x in n["es"]))
        if k == "Unary":
            v = self.ev(n["e"], env)
            if n["op"] == "Not":
                if v == T:
                    return F
                if v == F:
                    return T
                return UNK
            return v
        if k == "Binary":
            return self.binary(n, env)
        if k == "If":
            c = self.cond(n["c"], env)
            if c == T:
                return self.ev(n["then"], env)
            if c == F:
                return self.ev(n["else"], env) if "else" in n else ("unit",)
            a = self.ev(n["then"], dict(env))
            b = self.ev(n["else"], dict(env)) if "else" in n else ("unit",)
            return a if a == b else UNK
        if k == "Match":
            return self.match(n, env)
        if k == "Closure":
            return ("closure", n, dict(env))
        if k == "Call":
            return self.call(n, env)
        if k == "MethodCall":
            return self.method(n, env)
        if k == "Field":
            b = self.ev(n["e"], env)
            if b[0] in ("sym", "obj"):
                return sym("%s.%s" % (b[1], n["name"]))
            if b[0] == "tuple" and n["name"].isdigit():
                return b[1][int(n["name"])]
            return UNK
        if k == "Ret":
            raise Return(self.ev(n["e"], env) if "e" in n else ("unit",))
        if k == "Cast":
            return self.ev(n["e"], env)
        return UNK

    def cond(self, c, env):
        c = strip(c)
        if c.get("k") == "LetExpr":
            v = self.ev(c["init"], env)
            r = self.bind(c["pat"], v, env)
            return T if r is True else F if r is False else UNK
        return self.ev(c, env)

    def block(self, n, env):
        for s in n.get("stmts", ()):
            if s["k"] == "Let":
                v = self.ev(s["init"], env) if "init" in s else UNK
                r = self.bind(s["pat"], v, env)
                if r is False and "els" in s:
                    return self.block(s["els"], env)
            else:
                self.ev(s["e"], env)
        if "expr" in n:
            return self.ev(n["expr"], env)
        return ("unit",)

    def binary(self, n, env):
        op = n["op"]
        if op in ("And", "Or"):
            a = self.ev(n["a"], env)
            if op == "And":
                if a == F:
                    return F
                b = self.ev(n["b"], env)
                if a == T:
                    return b
                return F if b == F else UNK
            if a == T:
                return T
            b = self.ev(n["b"], env)
            if a == F:
                return b
            return T if b == T else UNK
        a, b = self.ev(n["a"], env), self.ev(n["b"], env)
        if op in ("Eq", "Ne"):
            if contains_unknown(a) or contains_unknown(b):
                return UNK
            if a == b:
                return T if op == "Eq" else F
            # distinct constructors are definitely different; distinct opaque symbols are unknown
            if definitely_different(a, b) or (self.distinct and is_ground(a) and is_ground(b)):
                return F if op == "Eq" else T
            return UNK
        return UNK

    def match(self, n, env):
        v = self.ev(n["scrut"], env)
        results = []
        for a in n["arms"]:
            e2 = dict(env)
            r = self.bind(a["pat"], v, e2)
            if r is False:
                continue
            if "guard" in a:
                g = self.ev(a["guard"], e2)
                if g == F:
                    continue
                if g != T:
                    r = None
            val = self.ev(a["body"], e2)
            if r is True:
                results.append(val)
                break
            results.append(val)
        if not results:
            return UNK
        if all(x == results[0] for x in results):
            return results[0]
        return UNK

    def apply(self, f, args):
        if f[0] == "closure":
            n, cenv = f[1], dict(f[2])
            for p, a in zip(n["params"], args):
                self.bind(p, a, cenv)
            try:
                return self.ev(n["body"], cenv)
            except Return as r:
                return r.v
        if f[0] == "sym":
            return sym("%s(%s)" % (f[1], ",".join(show(a) for a in args)))
        return UNK

    def call(self, n, env):
        fn = n.get("fn", {})
        d = fn.get("ctor_of") or fn.get("def") or ""
        args = [self.ev(a, env) for a in n["args"]]
        name = last_seg(d)
        if name == "Some" and "ctor_of" in fn:
            return some(args[0])
        if name in ("Ok", "Err") and "ctor_of" in fn:
            return (name.lower(), args[0])
        if "local" in fn:
            return self.apply(env.get(fn["hid"], UNK), args)
        h = self.hook(d, None, args, n)
        if h is not None:
            return h
        if "ctor_of" in fn:
            return ("variant", name, tuple(args))
        return sym("%s(%s)" % (d, ",".join(show(a) for a in args)))

    def method(self, n, env):
        recv = self.ev(n["recv"], env)
        name = n["name"]
        m = n.get("m", "")
        args_n = n["args"]
        is_opt = m.startswith("std::option::Option")
        if is_opt or (recv[0] in ("some", "none") and name in OPTION_METHODS):
            return self.option_method(name, recv, args_n, env)
        if name in ("clone", "cloned", "copied", "as_ref", "as_mut", "borrow", "deref", "to_owned", "into", "as_deref"):
            h = self.hook(m, recv, [], n)
            return h if h is not None else recv
        args = [self.ev(a, env) for a in args_n]
        h = self.hook(m, recv, args, n)
        if h is not None:
            return h
        if contains_unknown(recv):
            return UNK
        return sym("%s(%s)" % (last_seg(m) or name, ",".join(show(a) for a in [recv] + args)))

    def option_method(self, name, recv, args_n, env):
        args = [self.ev(a, env) for a in args_n]
        if name in ("cloned", "copied", "as_ref", "as_mut", "clone", "as_deref", "take"):
            return recv
        if recv[0] not in ("some", "none"):
            return UNK
        if name == "map":
            return some(self.apply(args[0], [recv[1]])) if recv[0] == "some" else NONE
        if name == "and_then":
            return self.apply(args[0], [recv[1]]) if recv[0] == "some" else NONE
        if name == "or_else":
            return recv if recv[0] == "some" else self.apply(args[0], [])
        if name == "or":
            return recv if recv[0] == "some" else args[0]
        if name == "unwrap_or":
            return recv[1] if recv[0] == "some" else args[0]
        if name == "unwrap_or_else":
            return recv[1] if recv[0] == "some" else self.apply(args[0], [])
        if name == "unwrap_or_default":
            return recv[1] if recv[0] == "some" else sym("default")
        if name == "map_or":
            return self.apply(args[1], [recv[1]]) if recv[0] == "some" else args[0]
        if name in ("is_some",):
            return T if recv[0] == "some" else F
        if name in ("is_none",):
            return F if recv[0] == "some" else T
        if name in ("unwrap", "expect"):
            return recv[1] if recv[0] == "some" else ("panic",)
        if name == "filter":
            if recv[0] == "none":
                return NONE
            c = self.apply(args[0], [recv[1]])
            return recv if c == T else NONE if c == F else UNK
        if name in ("ok_or", "ok_or_else"):
            return ("ok", recv[1]) if recv[0] == "some" else ("err", args[0])
        return UNK

    def run(self, env):
        try:
            return self.ev(self.body["body"], env)
        except Return as r:
            return r.v


OPTION_METHODS = {"map", "and_then", "or_else", "or", "unwrap_or", "unwrap_or_else", "is_some", "is_none", "unwrap",
                  "expect", "filter", "cloned", "copied", "as_ref", "map_or", "ok_or", "unwrap_or_default"}


def contains_unknown(v):
    if v == UNK:
        return True
    if isinstance(v, tuple):
        return any(contains_unknown(x) for x in v if isinstance(x, tuple))
    return False


def is_ground(v):
    """Built only from constructors and opaque symbols (no unknown, no closure)."""
    if not isinstance(v, tuple):
        return True
    if v == UNK or v[0] == "closure":
        return False
    return all(is_ground(x) for x in v[1:] if isinstance(x, tuple))


def definitely_different(a, b):
    if a[0] != b[0]:
        return a[0] in ("some", "none", "bool", "ok", "err") and b[0] in ("some", "none", "bool", "ok", "err")
    if a[0] == "bool":
        return a[1] != b[1]
    return False


def show(v):
    if not isinstance(v, tuple):
        return str(v)
    if not v:
        return "()"
    if isinstance(v[0], tuple):
        return "(%s)" % ", ".join(show(x) for x in v)
    if v[0] == "variant":
        return v[1] + ("(%s)" % ", ".join(show(x) for x in v[2]) if v[2] else "")
    if v[0] == "bool":
        return "true" if v[1] else "false"
    if v[0] == "sym":
        return v[1]
    if v[0] == "some":
        return "Some(%s)" % show(v[1])
    if v[0] == "none":
        return "None"
    if v[0] == "tuple":
        return "(%s)" % ", ".join(show(x) for x in v[1])
    if v[0] == "closure":
        return "<closure>"
    return v[0] + ("(%s)" % ", ".join(show(x) for x in v[1:]) if len(v) > 1 else "")


def param_env(body, values):
    """Environment binding the function's parameters (by position) to abstract values."""
    env = {}
    for p, v in zip(body["params"], values):
        if p.get("k") == "Bind":
            env[p["hid"]] = v
    return env
