"""Finite-case evaluation of hand-written lattice operations (partial_cmp / join) over an enum with
unit variants and one payload variant, e.g. Top | Value(c) | Bottom."""
import optval
from armlib import last_seg


def V(name, *args):
    return ("variant", name, tuple(args))


def ordering_of(v):
    """Normalise the result of partial_cmp to 'Less' | 'Equal' | 'Greater' | 'None' | '?'"""
    if v == optval.NONE:
        return "None"
    if v[0] == "some":
        x = v[1]
        if x[0] == "sym":
            return last_seg(x[1])
        if x[0] == "variant":
            return x[1]
    return "?"


def check_table(r, db, hb, key_prefix, cases, run, show=lambda x: x):
    """cases: list of (label, args, expected); run(args) -> normalised result"""
    for label, args, want in cases:
        got = run(args)
        key = "%s|%s" % (key_prefix, label)
        if got == "?":
            r.open(key, db.where(hb), "could not evaluate case %s" % label)
        else:
            r.decide(got == want, key, db.where(hb), "%s yields %s, expected %s" % (label, show(got), show(want)))


def three_point_cmp_cases(top="Top", val="Value", bot="Bottom"):
    a, b = optval.sym("a"), optval.sym("b")
    T_, B_ = V(top), V(bot)
    return [
        ("Top~Top", (T_, T_), "Equal"), ("Top~Value", (T_, V(val, a)), "Greater"), ("Top~Bottom", (T_, B_), "Greater"),
        ("Value~Top", (V(val, a), T_), "Less"), ("Value(a)~Value(a)", (V(val, a), V(val, a)), "Equal"),
        ("Value(a)~Value(b)", (V(val, a), V(val, b)), "None"), ("Value~Bottom", (V(val, a), B_), "Greater"),
        ("Bottom~Top", (B_, T_), "Less"), ("Bottom~Value", (B_, V(val, a)), "Less"), ("Bottom~Bottom", (B_, B_), "Equal"),
    ]


def eval_fn(hb, args, hook=None):
    ev = optval.Ev(hb, hook, distinct=True)
    return ev.run(optval.param_env(hb, list(args)))
