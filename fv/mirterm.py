"""Symbolic terms over MIR locals: a small def-use tree builder (no path conditions, no solver).

term(local) describes how a value is computed from parameters, constants, calls and operators,
looking through moves, copies, borrows, derefs and casts. Locals with several definitions give
("phi", alternatives). Terms are hashable tuples.
"""
from db import DefUse, mir_callee, op_place


class Terms:
    def __init__(self, body, db=None, env=None, max_depth=30):
        self.body = body
        self.db = db
        self.du = DefUse(body)
        self.argc = body["argc"]
        self.env = env  # for closures: list of terms of captured operands (parent context)
        self.closure_arg = None  # term standing for closure parameter(s), set by caller
        self.max_depth = max_depth
        self.cache = {}

    # ---------------------------------------------------------------- operands / places
    def place(self, pl, depth=None):
        depth = self.max_depth if depth is None else depth
        t = self.local(pl[0], depth)
        # only the first field projection of the closure's own environment parameter selects a capture
        env_base = self.body["dk"] == "Closure" and pl[0] == 1
        for pr in pl[1:]:
            if pr == "*":
                continue
            if pr.startswith("."):
                if env_base:
                    env_base = False
                    i = int(pr[1:])
                    if self.env is not None and i < len(self.env):
                        t = self.env[i]
                    else:
                        t = ("upvar", i)
                else:
                    t = ("field", t, pr)
            elif pr.startswith("@"):
                t = ("variant", t, pr.split(":", 1)[1])
            else:
                t = ("index", t, pr)
        return t

    def operand(self, op, depth=None):
        depth = self.max_depth if depth is None else depth
        pl = op_place(op)
        if pl is not None:
            return self.place(pl, depth)
        k = op.get("k")
        if k is not None:
            if "int" in k:
                return ("const", k["int"])
            if "fn" in k:
                return ("fnptr", k["fn"])
            if "uneval" in k:
                return ("constv", k["uneval"])
            return ("constv", k.get("v", "?"))
        return ("unk",)

    def local(self, l, depth=None):
        depth = self.max_depth if depth is None else depth
        hit = self.cache.get(l)
        if hit is not None and (hit[1] >= depth or hit[1] < 0):
            return hit[0]
        if 1 <= l <= self.argc:
            if self.body["dk"] == "Closure" and l >= 2 and self.closure_arg is not None:
                return ("carg", l - 2, self.closure_arg)
            return ("param", l)
        if depth <= 0:
            return ("unk",)
        defs = self.du.defs.get(l, [])
        if not defs:
            return ("undef", l)
        self.cache[l] = (("rec", l), -1)  # cycle guard (loops)
        alts = []
        for (_bb, kind, pay) in defs:
            if kind == "assign":
                alts.append(self.rvalue(pay, depth - 1))
            elif kind == "call":
                alts.append(self.call(pay, depth - 1))
            else:
                alts.append(("partial", l))
        # de-duplicate
        uniq = []
        for a in alts:
            if a not in uniq:
                uniq.append(a)
        t = uniq[0] if len(uniq) == 1 else ("phi", tuple(uniq))
        # a term computed with less remaining depth may be truncated: remember how deep it was computed
        self.cache[l] = (t, depth)
        return t

    def call(self, t, depth):
        args = tuple(self.operand(a, depth) for a in t["args"])
        if not args:
            # constructors without arguments (Vec::new(), HashMap::default()): keep distinct objects distinct
            return ("call", mir_callee(t) or "?", args, t.get("fg", ""), ("site", t.get("d", [0])[0]))
        return ("call", mir_callee(t) or "?", args, t.get("fg", ""))

    def rvalue(self, rv, depth):
        k = rv["k"]
        if k in ("Use", "Repeat"):
            return self.operand(rv["op"], depth)
        if k in ("Ref", "RawPtr", "CopyForDeref"):
            return self.place(rv["p"], depth)
        if k == "Cast":
            inner = self.operand(rv["op"], depth)
            ck = rv.get("ck", "")
            if ck.startswith("IntToInt"):
                pl = op_place(rv["op"])
                frm = None
                if pl is not None and len(pl) == 1:
                    frm = self.body["types"][self.body["locals"][pl[0]]]
                return ("cast", inner, self.body["types"][rv["ty"]], frm)
            return inner
        if k == "BinaryOp":
            return ("bin", rv["op"], self.operand(rv["a"], depth), self.operand(rv["b"], depth))
        if k == "UnaryOp":
            return ("un", rv["op"], self.operand(rv["a"], depth))
        if k == "Discriminant":
            return ("discr", self.place(rv["p"], depth))
        if k == "Aggregate":
            ops = tuple(self.operand(o, depth) for o in rv["ops"])
            if "variant" in rv:
                return ("agg", rv["variant"], ops)
            if "closure" in rv:
                return ("closure", rv["closure"], ops)
            if rv.get("tuple"):
                return ("tuple", ops)
            return ("array", ops)
        return ("unk",)


def subterms(t):
    """All sub-terms of t (pre-order)."""
    st = [t]
    while st:
        x = st.pop()
        if isinstance(x, tuple) and not x:
            continue
        yield x
        if isinstance(x, tuple):
            for y in x:
                if isinstance(y, tuple):
                    st.append(y)


def params_of(t):
    return {x[1] for x in subterms(t) if isinstance(x, tuple) and len(x) == 2 and x[0] == "param"}


def calls_in(t):
    return [x for x in subterms(t) if isinstance(x, tuple) and x and x[0] == "call"]


def has_call(t, pred):
    return any(pred(x[1]) for x in calls_in(t))


def strip_overflow(t):
    """(a op_with_overflow b).0 -> ("bin", op, a, b)"""
    if isinstance(t, tuple) and t[0] == "field" and t[2] == ".0":
        inner = t[1]
        if isinstance(inner, tuple) and inner[0] == "bin" and inner[1].endswith("WithOverflow"):
            return ("bin", inner[1][: -len("WithOverflow")], inner[2], inner[3])
    return t


def show(t, depth=0):
    if not isinstance(t, tuple):
        return str(t)
    if not t:
        return "()"
    if isinstance(t[0], tuple):
        return "(%s)" % ", ".join(show(a, depth + 1) for a in t)
    if depth > 6:
        return "…"
    h = t[0]
    if h == "param":
        return "p%d" % t[1]
    if h == "const":
        return str(t[1])
    if h == "call":
        name = t[1].split("::")[-1]
        return "%s(%s)" % (name, ", ".join(show(a, depth + 1) for a in t[2]))
    if h == "field":
        return "%s%s" % (show(t[1], depth + 1), t[2])
    if h == "bin":
        return "(%s %s %s)" % (show(t[2], depth + 1), t[1], show(t[3], depth + 1))
    if h == "phi":
        return "phi(%s)" % " | ".join(show(a, depth + 1) for a in t[1])
    if h == "agg":
        return "%s{%s}" % (t[1].split("::")[-1], ", ".join(show(a, depth + 1) for a in t[2]))
    return "%s(%s)" % (h, ", ".join(show(a, depth + 1) for a in t[1:]))


# ------------------------------------------------------------------ closures in context
def immediate_parent(defpath):
    i = defpath.rfind("::{closure#")
    return defpath[:i] if i >= 0 else None


def terms_of(db, defpath, cache=None):
    """Terms for a body; for closures the captured operands are resolved in the (recursively
    resolved) immediate parent and the closure arguments stand for the receiver of the call
    that takes the closure (iterator / Option adaptor)."""
    cache = cache if cache is not None else {}
    if defpath in cache:
        return cache[defpath]
    body = db.mir[defpath]
    if body["dk"] != "Closure":
        tm = Terms(body, db)
        cache[defpath] = tm
        return tm
    par = immediate_parent(defpath)
    ptm = terms_of(db, par, cache) if par in db.mir else None
    env = None
    recv = None
    if ptm is not None:
        pbody = db.mir[par]
        for blk in pbody["blocks"]:
            for s in blk["s"]:
                rv = s.get("rv")
                if rv and rv["k"] == "Aggregate" and rv.get("closure") == defpath:
                    env = [ptm.operand(o) for o in rv["ops"]]
                    cl_local = s["d"][0]
                    for b2 in pbody["blocks"]:
                        t = b2["t"]
                        if t["k"] != "Call":
                            continue
                        for n, a in enumerate(t["args"]):
                            pl = a.get("m") or a.get("c")
                            if pl and pl[0] == cl_local and n > 0:
                                recv = ptm.operand(t["args"][0])
    tm = Terms(body, db, env=env)
    tm.closure_arg = recv if recv is not None else ("unk",)
    cache[defpath] = tm
    return tm


def bodies_under(db, fn):
    """fn and all closures (transitively) defined inside it."""
    pre = fn + "::{closure#"
    return [fn] + sorted(k for k in db.mir if k.startswith(pre))


INT_BITS = {"u8": 8, "i8": 8, "u16": 16, "i16": 16, "u32": 32, "i32": 32, "u64": 64, "i64": 64, "usize": 64,
            "isize": 64, "u128": 128, "i128": 128}


def narrowing_casts(t):
    """Sub-terms that are integer casts to a strictly narrower type."""
    out = []
    for x in subterms(t):
        if isinstance(x, tuple) and x and x[0] == "cast" and len(x) >= 4:
            to, frm = INT_BITS.get(x[2]), INT_BITS.get(x[3]) if x[3] else None
            if to is not None and frm is not None and to < frm:
                out.append(x)
    return out
