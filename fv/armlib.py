"""Helpers for rules over `match` arms (K1/K4): arm tables of a match over an enum, binding use
order, looking through the `?` desugaring."""
from db import walk, children, pat_leaves, pat_path, pat_bindings, callee, strip


import re

_LT = re.compile(r"<'[A-Za-z_{}]+>")
_LT2 = re.compile(r"'[A-Za-z_{}]+, ")


def base_ty(t):
    if t is None:
        return None
    t = _LT2.sub("", _LT.sub("", t.strip()))
    while True:
        if t.startswith("&mut "):
            t = t[5:]
        elif t.startswith("&"):
            t = t[1:].lstrip()
            if t.startswith("'"):
                t = t.split(" ", 1)[1] if " " in t else t
        elif t.startswith("std::boxed::Box<") and t.endswith(">"):
            t = t[len("std::boxed::Box<"):-1]
        else:
            return t


def unq(n):
    """Look through `expr?` (MatchSource::TryDesugar), refs, derefs and trivial blocks."""
    while True:
        n = strip(n)
        if n.get("k") == "Match" and n.get("src") == "Try":
            sc = n["scrut"]
            if sc.get("k") == "Call" and sc.get("args"):
                n = sc["args"][0]
                continue
        return n


def matches_on(body, enum_path):
    out = []
    for n in walk(body["body"]):
        if n.get("k") == "Match" and n.get("src") == "Normal":
            t = n["scrut"].get("t")
            ts = base_ty(body["types"][t]) if t is not None else None
            if ts == enum_path:
                out.append(n)
    return out


def main_match(body, enum_path):
    ms = matches_on(body, enum_path)
    if not ms:
        return None
    return max(ms, key=lambda m: len(m["arms"]))


def unit_bodies(db, root_hir, depth=2):
    """The function and the private functions of the same source file it calls (transitively, bounded): a phase of a long
    function that was factored out into a private helper is still part of the unit the rule looks at."""
    from db import callee as _callee
    out = [root_hir]
    seen = {root_hir.get("def")}
    frontier = [(root_hir, 0)]
    while frontier:
        b, d = frontier.pop()
        if d >= depth:
            continue
        for n in walk(b["body"]):
            c = _callee(n) or ""
            if c in seen or c not in db.hir:
                continue
            h = db.hir[c]
            if h.get("file") != root_hir.get("file") or h.get("vis") == "Public" or h.get("dk") not in ("Fn", "AssocFn"):
                continue
            seen.add(c)
            out.append(h)
            frontier.append((h, d + 1))
    return out


def main_match_in_unit(db, root_hir, enum_path):
    """(match, owner body): the match over the enum with most arms in the function or in the private helpers it delegates to."""
    best = None
    for b in unit_bodies(db, root_hir):
        for m in matches_on(b, enum_path):
            if best is None or len(m["arms"]) > len(best[0]["arms"]):
                best = (m, b)
    return best if best is not None else (None, root_hir)


class Arm:
    def __init__(self, arm):
        self.arm = arm
        self.line = arm["l"]
        self.leaves = pat_leaves(arm["pat"])
        self.variants = []
        self.wild = False
        self.bind_by_variant = {}
        for lf in self.leaves:
            inner = lf
            while inner.get("k") in ("Ref", "Box", "Deref"):
                inner = inner["p"]
            if inner.get("k") == "Wild" or (inner.get("k") == "Bind" and "sub" not in inner):
                self.wild = True
                continue
            vp = pat_path(inner)
            if vp:
                self.variants.append(vp)
                self.bind_by_variant[vp] = pat_bindings(inner)
        self.body = arm["body"]
        self.guard = arm.get("guard")

    def bindings(self):
        """name -> position for the first alternative; plus consistency flag across alternatives."""
        first = None
        consistent = True
        for v in self.variants:
            m = {name: pos for (name, _h, pos) in self.bind_by_variant[v]}
            if first is None:
                first = m
            elif m != first:
                consistent = False
        return first or {}, consistent

    def binding_hids(self):
        out = {}
        for v in self.variants:
            for (name, hid, pos) in self.bind_by_variant[v]:
                out.setdefault(hid, (name, pos))
        return out

    def use_order(self):
        """Positions of bound names in order of first use in the arm body (pre-order, receiver
        before arguments)."""
        names, _ = self.bindings()
        order = []
        for n in walk(self.body):
            if n.get("k") == "Path" and "local" in n.get("res", {}):
                nm = n["res"]["local"]
                if nm in names and self._is_binding(n["res"]["hid"]):
                    order.append(names[nm])
        return order

    def _is_binding(self, hid):
        return hid in self.binding_hids()

    def callees(self):
        out = [c for _n, c in ((x, callee(x)) for x in walk(self.body)) if c]
        # a function named as a value (`Constant::add` handed on as a fn pointer) is the arm's choice of that function just as a
        # call of it is
        for x in walk(self.body):
            if x.get("k") == "Path" and x.get("res", {}).get("dk") in ("AssocFn", "Fn") and x["res"].get("def") and x["res"]["def"] not in out:
                out.append(x["res"]["def"])
        return out


def arm_table(match):
    return [Arm(a) for a in match["arms"]]


def variants_of(db, enum_path):
    it = db.adt(enum_path)
    if it is None:
        return None
    return [(v["def"], v) for v in it["variants"]]


def last_seg(path):
    return path.split("::")[-1] if path else path


def fold(s):
    return s.replace("_", "").lower()


# ------------------------------------------------------------------ finite pattern evaluation
def pat_matches(p, value):
    """Does HIR pattern p match the constructor tree `value` = (variant_name, sub_values...)?
    Returns True / False / None (unknown pattern form)."""
    k = p.get("k")
    if k in ("Wild",):
        return True
    if k == "Bind":
        return pat_matches(p["sub"], value) if "sub" in p else True
    if k in ("Ref", "Box", "Deref"):
        return pat_matches(p["p"], value)
    if k == "Or":
        rs = [pat_matches(x, value) for x in p["ps"]]
        if any(r is True for r in rs):
            return True
        if any(r is None for r in rs):
            return None
        return False
    if k == "Path":
        return last_seg(p["path"].get("ctor_of") or p["path"].get("def") or "") == value[0]
    if k == "TupleStruct":
        if last_seg(p["path"].get("ctor_of") or p["path"].get("def") or "") != value[0]:
            return False
        subs = value[1:]
        if p.get("ddpos") is not None:
            return True if all(pat_matches(x, v) for x, v in zip(p["ps"], subs)) else False
        if len(p["ps"]) != len(subs):
            return None
        rs = [pat_matches(x, v) for x, v in zip(p["ps"], subs)]
        if all(r is True for r in rs):
            return True
        if any(r is False for r in rs):
            return False
        return None
    if k == "Struct":
        if last_seg(p["path"].get("ctor_of") or p["path"].get("def") or "") != value[0]:
            return False
        return True
    return None


def select_arm(match, value):
    """First arm of a HIR match whose pattern matches the constructor tree (guards unsupported)."""
    for i, a in enumerate(match["arms"]):
        if "guard" in a:
            return None
        r = pat_matches(a["pat"], value)
        if r is None:
            return None
        if r:
            return i
    return None
