"""ilshape — abstract interpretation of IL-builder code (the lifters) over the type-checked HIR.

Nothing is executed: handler bodies are interpreted over abstract IL values (width terms, scalar names,
operator trees of bounded depth). Falcon-local helpers are interpreted in place (bounded inlining), the
IL DSL and register tables have transfer functions keyed by *resolved* callee. Outputs per handler:
emitted operations with abstract operands, CFG edges with guard shapes, and width obligations, each
Proved / Refuted / Open. Only Refuted can become an alarm.
"""
from armlib import last_seg, unq, pat_leaves, pat_path
from db import callee, int_lit, str_lit, strip, walk
import tables

UNK = ("unk",)
MAX_INLINE = 5

BINOPS = {"add": "Add", "sub": "Sub", "mul": "Mul", "divu": "Divu", "modu": "Modu", "divs": "Divs", "mods": "Mods",
          "and": "And", "or": "Or", "xor": "Xor", "shl": "Shl", "shr": "Shr", "ashr": "AShr"}
CMPOPS = {"cmpeq": "Cmpeq", "cmpneq": "Cmpneq", "cmplts": "Cmplts", "cmpltu": "Cmpltu"}
DERIVED = {"sra": "sra", "rotl": "rotl"}
EXPR = "il::expression::Expression::"


# ------------------------------------------------------------------------------------------ width terms
def wnorm(w, assume):
    if w in assume:
        return assume[w]
    if isinstance(w, tuple) and w and w[0] in ("add", "sub", "mul", "div"):
        a, b = wnorm(w[1], assume), wnorm(w[2], assume)
        if isinstance(a, int) and isinstance(b, int):
            try:
                return {"add": a + b, "sub": a - b, "mul": a * b, "div": a // b if b else None}[w[0]]
            except Exception:
                return None
        return (w[0], a, b)
    return w


def rel_between(a, b, assume):
    """Relations assumed on the current path between width terms a and b: set of ops as seen from (a, b)."""
    out = set()
    flip = {"Lt": "Gt", "Gt": "Lt", "Le": "Ge", "Ge": "Le", "Eq": "Eq", "Ne": "Ne"}
    for (op, x, y) in assume.get("__rel__", ()):
        x, y = wnorm(x, assume), wnorm(y, assume)
        if x == a and y == b:
            out.add(op)
        elif x == b and y == a:
            out.add(flip[op])
    return out


def weq(a, b, assume):
    """True (provably equal) / False (provably different) / None (open)."""
    a, b = wnorm(a, assume), wnorm(b, assume)
    if a is None or b is None:
        return None
    if isinstance(a, int) and isinstance(b, int):
        return a == b
    if a == b:
        return True
    rs = rel_between(a, b, assume)
    if rs & {"Lt", "Gt", "Ne"}:
        return False
    if "Eq" in rs or {"Le", "Ge"} <= rs:
        return True
    return None


def wlt(a, b, assume):
    a, b = wnorm(a, assume), wnorm(b, assume)
    if isinstance(a, int) and isinstance(b, int):
        return a < b
    if a is not None and a == b:
        return False
    if a is None or b is None:
        return None
    rs = rel_between(a, b, assume)
    if "Lt" in rs:
        return True
    if rs & {"Ge", "Gt", "Eq"}:
        return False
    return None


# ------------------------------------------------------------------------------------------ values
def E(w, shape, origin=None):
    return ("e", w, shape, origin)


def opaque(w, tag="?", origin=None):
    return ("e", w, ("opaque", tag), origin)


def I(v, origin=None):
    return ("int", v, origin)


def orig(v):
    """Activation in which the width-determining literal of a value was written ('G' = crate-wide table constant)."""
    if isinstance(v, tuple):
        if v[0] == "e":
            return v[3] if len(v) > 3 else None
        if v[0] == "int":
            return v[2] if len(v) > 2 else None
        if v[0] == "sc":
            return v[3] if len(v) > 3 else None
        if v[0] == "k":
            return v[3] if len(v) > 3 else None
    return None


def common(a, b):
    if a == b:
        return a
    if a == "G":
        return b
    if b == "G":
        return a
    return None


def width_of(v):
    if not isinstance(v, tuple):
        return None
    if v[0] == "e":
        return v[1]
    if v[0] in ("sc", "k"):
        return v[2] if v[0] == "sc" else v[1]
    return None


def is_il(v):
    return isinstance(v, tuple) and v and v[0] == "e"


def to_expr(v):
    if not isinstance(v, tuple):
        return opaque(None)
    if v[0] == "e":
        return v
    if v[0] == "sc":
        if len(v) > 4 and v[4]:
            return opaque(v[2], "reg:%s" % (v[4],), orig(v))
        return E(v[2], ("scalar", v[1]), orig(v))
    if v[0] == "k":
        return E(v[1], ("const", v[2]), orig(v))
    return opaque(None)


def trim(shape, depth=14):
    if depth <= 0:
        return ("opaque", "deep")
    if shape[0] == "op":
        return ("op", shape[1], tuple(("e", a[1], trim(a[2], depth - 1), orig(a)) if is_il(a) else a for a in shape[2]))
    return shape


class Ret(Exception):
    def __init__(self, v):
        self.v = v


class Abort(Exception):
    """break / continue: abandon the rest of the current straight-line path."""


class Handler:
    def __init__(self, name):
        self.name = name
        self.ops = []          # dict(kind, block, ctx, line, ...)
        self.edges = []        # dict(kind cond|uncond, head, tail, guard, ctx, line)
        self.succ = []         # successors.push((addr, guard))
        self.obl = []          # dict(kind, verdict, line, file, detail, fn)
        self.blocks = 0
        self.entry = []
        self.exit = []
        self.ops_used = set()  # IL operator kinds constructed directly in this handler (incl. inlined helpers <= fan-in)
        self.calls = set()
        self.reads = set()     # scalar names read
        self.incomplete = []   # reasons the interpretation lost precision
        self.discr = set()     # decoder-object paths whose variant the code branches on (e.g. "...operands[0].type_")


class Shape:
    def __init__(self, db):
        self.db = db
        self.regs = {}
        rows = {}
        for mode, path in (("X86", "translator::x86::x86register::X86REGISTERS"),
                           ("Amd64", "translator::x86::x86register::AMD64REGISTERS")):
            t = tables.const_table(db, path) or []
            rows[mode] = {last_seg(r["capstone_reg"]): r for r in t}
        self.x86rows = rows
        self.a64rows = {last_seg(r["bad64_reg"]): r for r in (tables.const_table(db, "translator::aarch64::register::AARCH64_REGISTERS") or [])}
        self.col = {}
        for nm, path in (("mips", "translator::mips::semantics::MIPS_REGISTERS"), ("ppc", "translator::ppc::semantics::PPC_REGISTERS")):
            t = tables.const_table(db, path) or []
            bits = {r["bits"] for r in t}
            self.col[nm] = bits.pop() if len(bits) == 1 else None
        self.fresh = 0
        self.act = 0
        self.act_counter = 0
        self.h = None
        self.ctx = ()
        self.assume = {}
        self.depth = 0
        self.stack = []
        self.cur_fn = None
        self.rets = [[]]
        self.overrides = {}    # hid -> value: pins a binding (e.g. the instruction id a condition helper matches on)

    # ------------------------------------------------------------------ bookkeeping
    def key(self, tag="v"):
        self.fresh += 1
        return "%s#%d" % (tag, self.fresh)

    def oblige(self, kind, verdict, node, detail, oa=None, ob=None, via_rel=False):
        """A refutation is *definite* only if both widths were written in the same function activation (or one is a
        crate-wide table constant), or follows from a comparison assumed on this very path; otherwise the conflict may
        sit on an infeasible combination of decoder cases and is reported as conditional (undecided)."""
        definite = False
        if verdict == "refuted":
            definite = via_rel or (oa is not None and ob is not None and common(oa, ob) is not None)
            if not definite:
                verdict = "conditional"
        self.h.obl.append({"kind": kind, "verdict": verdict, "line": node.get("l"), "fn": self.cur_fn, "detail": detail,
                           "ctx": self.ctx})

    def oblige_eq(self, kind, a, b, node, what, oa=None, ob=None):
        v = weq(a, b, self.assume)
        na, nb = wnorm(a, self.assume), wnorm(b, self.assume)
        via_rel = v is False and not (isinstance(na, int) and isinstance(nb, int))
        self.oblige(kind, "proved" if v is True else "refuted" if v is False else "open", node,
                    "%s: %s vs %s" % (what, show_w(na), show_w(nb)), oa, ob, via_rel)
        return v

    # ------------------------------------------------------------------ entry points
    def run(self, defpath, args=None, assume=None):
        body = self.db.hir[defpath]
        self.h = Handler(defpath)
        self.ctx = ()
        self.assume = dict(assume or {})
        self.depth = 0
        self.stack = [defpath]
        self.act_counter += 1
        self.act = self.act_counter
        env = {}
        args = args or {}
        for i, p in enumerate(body["params"]):
            v = args.get(i)
            if v is None:
                v = self.default_param(body, i, p)
            self.bind(p, v, env)
        self.cur_fn = defpath
        self.rets = [[]]
        try:
            ret = self.ev(body["body"], env, body)
        except Ret as r:
            ret = r.v
        except Abort:
            ret = UNK
        self.h.ret = self.join([ret] + self.rets.pop())
        return self.h

    def default_param(self, body, i, p):
        ty = body["inputs"][i] if i < len(body.get("inputs", [])) else ""
        if "ControlFlowGraph" in ty:
            return ("cfg",)
        if "il::block::Block" in ty:
            return ("block", "param%d" % i)
        if "il::expression::Expression" in ty:
            return opaque(("bits", "param%d" % i), "param%d" % i)
        if "il::scalar::Scalar" in ty:
            return ("sc", None, ("bits", "param%d" % i))
        if ty in ("usize", "u64", "u32", "u8", "i64", "isize", "u16"):
            return I(("sym", "param%d" % i))
        if "X86Register" in ty:
            return ("reg", "x86", None, "param%d" % i)
        if "AArch64Register" in ty:
            return ("reg", "a64", None, "param%d" % i)
        return ("obj", "param%d" % i)

    # ------------------------------------------------------------------ patterns
    def bind(self, pat, v, env):
        k = pat.get("k")
        if k == "Bind":
            if pat["hid"] in self.overrides:
                v = self.overrides[pat["hid"]]
            env[pat["hid"]] = v
            if "sub" in pat:
                self.bind(pat["sub"], v, env)
        elif k in ("Ref", "Box", "Deref"):
            self.bind(pat["p"], v, env)
        elif k == "Tuple":
            for i, p in enumerate(pat["ps"]):
                self.bind(p, v[1][i] if isinstance(v, tuple) and v[0] == "tuple" and i < len(v[1]) else UNK, env)
        elif k in ("TupleStruct",):
            name = last_seg(pat["path"].get("ctor_of") or pat["path"].get("def") or "")
            if name in ("Some", "Ok") and pat["ps"]:
                self.bind(pat["ps"][0], v, env)
            elif isinstance(v, tuple) and v[0] == "ctor" and v[1] == name and len(v[2]) == len(pat["ps"]):
                for p, a in zip(pat["ps"], v[2]):
                    self.bind(p, a, env)
            elif isinstance(v, tuple) and v[0] == "obj" and not v[1].startswith("ctor:"):
                # a field of a decoder object: the same path denotes the same value
                for i, p in enumerate(pat["ps"]):
                    self.bind(p, ("obj", "%s.%d" % (v[1], i)), env)
            else:
                for p in pat["ps"]:
                    self.bind(p, UNK, env)
        elif k == "Struct":
            for f in pat["fields"]:
                if isinstance(v, tuple) and v[0] == "rec" and f["n"] in v[1]:
                    self.bind(f["p"], v[1][f["n"]], env)
                elif isinstance(v, tuple) and v[0] == "obj" and not v[1].startswith("ctor:"):
                    self.bind(f["p"], ("obj", "%s.%s" % (v[1], f["n"])), env)
                else:
                    self.bind(f["p"], UNK, env)
        elif k == "Or":
            for p in pat["ps"]:
                self.bind(p, v, env)
        elif k == "Slice":
            for i, p in enumerate(pat.get("before", [])):
                self.bind(p, ("obj", "%s[%d]" % (v[1], i)) if isinstance(v, tuple) and v[0] == "obj" else UNK, env)
            for p in pat.get("after", []):
                self.bind(p, UNK, env)

    # ------------------------------------------------------------------ expression evaluation
    def ev(self, n, env, body):
        n = strip(n)
        k = n.get("k")
        m = getattr(self, "ev_" + (k or "none"), None)
        if m is None:
            return UNK
        return m(n, env, body)

    def ev_Lit(self, n, env, body):
        v = n["v"]
        if "int" in v:
            return ("int", v["int"], self.act)
        if "str" in v:
            return ("str", v["str"])
        if "bool" in v:
            return ("bool", v["bool"])
        return UNK

    def ev_Path(self, n, env, body):
        r = n["res"]
        if "local" in r:
            return env.get(r["hid"], UNK)
        d = r.get("ctor_of") or r.get("def") or ""
        if last_seg(d) == "None":
            return ("none",)
        if r.get("dk", "").startswith("Const") or r.get("dk", "").startswith("AssocConst"):
            cb = self.db.hir.get(d)
            if cb is not None:
                v = int_lit(cb["body"])
                if v is not None:
                    return ("int", v, "G")
                if unq(cb["body"]).get("k") == "Lit" and "bool" in unq(cb["body"])["v"]:
                    return ("bool", unq(cb["body"])["v"]["bool"])
                if unq(cb["body"]).get("k") == "Lit" and "str" in unq(cb["body"])["v"]:
                    return ("str", unq(cb["body"])["v"]["str"])
        return ("path", d)

    def ev_Cast(self, n, env, body):
        return self.ev(n["e"], env, body)

    def ev_Tup(self, n, env, body):
        return ("tuple", [self.ev(x, env, body) for x in n["es"]])

    def ev_Array(self, n, env, body):
        return ("list", [self.ev(x, env, body) for x in n["es"]])

    def ev_Repeat(self, n, env, body):
        return ("list", [self.ev(n["e"], env, body)])

    def ev_Unary(self, n, env, body):
        v = self.ev(n["e"], env, body)
        if n["op"] == "Not" and isinstance(v, tuple) and v[0] == "bool":
            return ("bool", not v[1])
        if n["op"] == "Neg" and isinstance(v, tuple) and v[0] == "int" and isinstance(v[1], int):
            return ("int", -v[1], orig(v))
        if n["op"] == "Deref":
            return v
        if n["op"] == "Not" and isinstance(v, tuple) and v[0] == "int" and isinstance(v[1], int):
            return ("int", ~v[1], orig(v))      # two's complement of unbounded width; consumers reduce modulo the IL width
        return UNK

    def ev_Binary(self, n, env, body):
        a, b = self.ev(n["a"], env, body), self.ev(n["b"], env, body)
        op = n["op"]
        if isinstance(a, tuple) and isinstance(b, tuple) and a[0] == "int" and b[0] == "int":
            x, y = a[1], b[1]
            o = common(orig(a), orig(b))
            if isinstance(x, int) and isinstance(y, int):
                try:
                    if op == "Add":
                        return I(x + y, o)
                    if op == "Sub":
                        return I(x - y, o)
                    if op == "Mul":
                        return I(x * y, o)
                    if op == "Div":
                        return I(x // y, o) if y else UNK
                    if op == "Rem":
                        return I(x % y, o) if y else UNK
                    if op == "Shl":
                        return I(x << y, o) if 0 <= y < 200 else UNK
                    if op == "Shr":
                        return I(x >> y, o) if 0 <= y < 200 else UNK
                    if op == "BitAnd":
                        return I(x & y, o)
                    if op == "BitOr":
                        return I(x | y, o)
                    if op == "BitXor":
                        return I(x ^ y, o)
                    if op in ("Eq", "Ne", "Lt", "Le", "Gt", "Ge"):
                        return ("bool", {"Eq": x == y, "Ne": x != y, "Lt": x < y, "Le": x <= y, "Gt": x > y, "Ge": x >= y}[op])
                except Exception:
                    return UNK
            if x is not None and y is not None and op in ("Add", "Sub", "Mul", "Div"):
                w = wnorm(({"Add": "add", "Sub": "sub", "Mul": "mul", "Div": "div"}[op], x, y), self.assume)
                return I(w, o)
            if op in ("Eq", "Ne", "Lt", "Le", "Gt", "Ge") and x is not None and y is not None:
                e = weq(x, y, self.assume)
                if e is True:
                    return ("bool", op in ("Eq", "Le", "Ge"))
                if e is False and op in ("Eq", "Ne"):
                    return ("bool", op == "Ne")
                lt = wlt(x, y, self.assume)
                if lt is True and op in ("Lt", "Le", "Ne"):
                    return ("bool", True)
                if lt is True and op in ("Gt", "Ge", "Eq"):
                    return ("bool", False)
                return ("cmp", op, x, y)
            return I(None)
        if op in ("And", "Or") and isinstance(a, tuple) and a[0] == "bool":
            if op == "And":
                return b if a[1] else ("bool", False)
            return ("bool", True) if a[1] else b
        if op in ("Eq", "Ne") and isinstance(a, tuple) and isinstance(b, tuple):
            for x_, y_ in ((a, b), (b, a)):
                if x_[0] == "obj" and y_[0] == "path" and "(" in str(x_[1]):
                    self.h.discr.add(x_[1])
            if a[0] == "obj" and ("obj", a[1]) in self.assume:
                a = ("path", self.assume[("obj", a[1])])
            if b[0] == "obj" and ("obj", b[1]) in self.assume:
                b = ("path", self.assume[("obj", b[1])])
        if op in ("Eq", "Ne") and isinstance(a, tuple) and isinstance(b, tuple) and a[0] == "path" and b[0] == "path":
            return ("bool", (a[1] == b[1]) == (op == "Eq"))
        if op in ("Eq", "Ne") and isinstance(a, tuple) and isinstance(b, tuple) and a[0] == "str" and b[0] == "str" \
                and a[1] is not None and b[1] is not None:
            return ("bool", (a[1] == b[1]) == (op == "Eq"))
        return UNK

    def ev_AddrOf(self, n, env, body):
        return self.ev(n["e"], env, body)

    def ev_Field(self, n, env, body):
        b = self.ev(n["e"], env, body)
        if isinstance(b, tuple) and b[0] == "tuple" and n["name"].isdigit() and int(n["name"]) < len(b[1]):
            return b[1][int(n["name"])]
        if isinstance(b, tuple) and b[0] == "rec" and n["name"] in b[1]:
            return b[1][n["name"]]
        if isinstance(b, tuple) and b[0] == "regrow" and n["name"] in b[1]:
            v = b[1][n["name"]]
            return ("int", v, "G") if isinstance(v, int) else ("str", v) if n["name"] == "name" else ("path", v)
        if isinstance(b, tuple) and b[0] == "obj":
            return ("obj", "%s.%s" % (b[1], n["name"]))
        if isinstance(b, tuple) and b[0] == "reg" and b[1] == "x86" and b[2]:
            vals = {r[n["name"]] for r in b[2].values() if r and n["name"] in r}
            if len(vals) == 1:
                v = vals.pop()
                return ("int", v, "G") if isinstance(v, int) else ("str", v) if n["name"] == "name" else ("path", v)
            if n["name"] == "bits":
                return ("int", self.x86_bits(b), "G")
        return UNK

    def ev_Index(self, n, env, body):
        b = self.ev(n["e"], env, body)
        i = self.ev(n["i"], env, body)
        if isinstance(b, tuple) and b[0] == "list" and isinstance(i, tuple) and i[0] == "int" and isinstance(i[1], int) and i[1] < len(b[1]):
            return b[1][i[1]]
        if isinstance(b, tuple) and b[0] == "obj":
            ix = i[1] if isinstance(i, tuple) and i[0] == "int" else "?"
            return ("obj", "%s[%s]" % (b[1], ix))
        return UNK

    def ev_Struct(self, n, env, body):
        # a record of the values given to its fields (a private struct that merely carries intermediate values behaves like
        # the tuple or the locals it replaced)
        vals = {}
        for f in n["fields"]:
            vals[f["n"]] = self.ev(f["e"], env, body)
        if "base" in n or not vals:
            return ("obj", self.key("struct"))
        return ("rec", vals, self.key("struct"))

    def ev_Closure(self, n, env, body):
        # a closure's code belongs to the function it is written in, whoever calls it
        return ("closure", n, env, body, self.cur_fn)

    def ev_Ret(self, n, env, body):
        raise Ret(self.ev(n["e"], env, body) if "e" in n else ("unit",))

    def ev_Break(self, n, env, body):
        raise Abort()

    def ev_Continue(self, n, env, body):
        raise Abort()

    def ev_Assign(self, n, env, body):
        v = self.ev(n["rhs"], env, body)
        lhs = strip(n["lhs"])
        if lhs.get("k") == "Path" and "local" in lhs["res"]:
            env[lhs["res"]["hid"]] = v
        return ("unit",)

    def ev_AssignOp(self, n, env, body):
        self.ev(n["rhs"], env, body)
        lhs = strip(n["lhs"])
        if lhs.get("k") == "Path" and "local" in lhs["res"]:
            env[lhs["res"]["hid"]] = I(None)
        return ("unit",)

    def ev_LetExpr(self, n, env, body):
        v = self.ev(n["init"], env, body)
        self.bind(n["pat"], v, env)
        return UNK

    def ev_Block(self, n, env, body):
        for s in n.get("stmts", ()):
            if s["k"] == "Let":
                v = self.ev(s["init"], env, body) if "init" in s else UNK
                self.bind(s["pat"], v, env)
            else:
                self.ev(s["e"], env, body)
        if "expr" in n:
            return self.ev(n["expr"], env, body)
        return ("unit",)

    def branch(self, label, fn):
        """Evaluate one control alternative in its own context; returns (value, aborted)."""
        saved = self.ctx
        self.ctx = self.ctx + (label,)
        n0 = len(self.h.ops)
        try:
            return fn(), False
        except Abort:
            self.mark_ended(n0, "loop@")
            return UNK, True
        except Ret as r:
            # a `return` inside one alternative ends only that path
            if self.rets:
                self.rets[-1].append(r.v)
            self.mark_ended(n0, "call:")
            return UNK, True
        finally:
            self.ctx = saved

    def mark_ended(self, n0, scope_tag):
        """Operations recorded on an alternative that left its scope early (return: the function activation, break /
        continue: the loop) are not followed by the rest of that scope."""
        scope = ()
        for i, lab in enumerate(self.ctx):
            if lab.startswith(scope_tag) or lab.startswith("call:"):
                scope = self.ctx[:i + 1]
        for o in self.h.ops[n0:]:
            o.setdefault("ends", (scope, self.ctx))

    def join(self, vals):
        vals = [v for v in vals if not (isinstance(v, tuple) and v and v[0] in ("err", "never"))]
        if not vals:
            return ("never",)
        if all(v == vals[0] for v in vals):
            return vals[0]
        if all(isinstance(v, tuple) and v[0] == "sc" for v in vals) and all(isinstance(v[1], (str, tuple)) and v[1] != "temp" for v in vals):
            names = []
            for v in vals:
                for nm in (v[1] if isinstance(v[1], tuple) else (v[1],)):
                    if nm not in names:
                        names.append(nm)
            ws = {wnorm(v[2], self.assume) for v in vals}
            w = ws.pop() if len(ws) == 1 else ("sym", "mode.bits") if ws == {32, 64} else ("bits", self.key("join"))
            return ("sc", tuple(sorted(names)), w, "G" if all(orig(v) == "G" for v in vals) else None)
        if all(is_il(v) or (isinstance(v, tuple) and v[0] in ("sc", "k")) for v in vals):
            ws = [width_of(v) for v in vals]
            # the alternatives stay visible below a uniquely named choice node (for read sets); its identity is fresh
            alts = tuple(to_expr(v) for v in vals[:8])
            if all(weq(ws[0], w, self.assume) is True for w in ws):
                o = orig(vals[0])
                for v in vals[1:]:
                    o = common(o, orig(v)) if o == orig(v) or "G" in (o, orig(v)) else None
                return E(ws[0], trim(("op", self.key("join"), alts)), o)
            return E(("bits", self.key("join")), trim(("op", self.key("join"), alts)))
        if any(is_il(v) for v in vals):
            return E(("bits", self.key("join")), trim(("op", self.key("join"), tuple(v for v in vals[:8] if is_il(v)))))
        if all(isinstance(v, tuple) and v[0] == "int" for v in vals):
            return I(("sym", self.key("join")))
        if all(isinstance(v, tuple) and v[0] == "reg" for v in vals):
            ids = []
            for v in vals:
                for i in str(v[3]).split("|"):
                    if i not in ids:
                        ids.append(i)
            same_row = all(v[2] == vals[0][2] for v in vals)
            if len(ids) <= 6 and all(":" in i or i.startswith("X86_REG_") for i in ids):
                return ("reg", vals[0][1], vals[0][2] if same_row else None, "|".join(ids))
            return ("reg", vals[0][1], None, self.key("reg"))
        if all(isinstance(v, tuple) and v[0] == "rec" for v in vals) and len({tuple(sorted(v[1])) for v in vals}) == 1:
            return ("rec", {f_: self.join([v[1][f_] for v in vals]) for f_ in vals[0][1]}, self.key("struct"))
        if all(isinstance(v, tuple) and v[0] == "tuple" for v in vals) and len({len(v[1]) for v in vals}) == 1:
            return ("tuple", [self.join([v[1][i] for v in vals]) for i in range(len(vals[0][1]))])
        # enum values of one local type: unit variants carry nothing, the others are merged per variant
        cts = [v for v in vals if isinstance(v, tuple) and v[0] == "ctor"]
        if cts and all(isinstance(v, tuple) and v[0] in ("ctor", "path", "none") for v in vals) and len({(v[1], len(v[2])) for v in cts}) == 1:
            return ("ctor", cts[0][1], tuple(self.join([c[2][i] for c in cts]) for i in range(len(cts[0][2]))))
        return UNK

    def ev_If(self, n, env, body):
        c = strip(n["c"])
        if c.get("k") == "LetExpr":
            cv = self.ev(c["init"], env, body)
            e1 = dict(env)
            self.bind(c["pat"], cv, e1)
            cond = UNK
            if isinstance(cv, tuple) and cv[0] == "none":
                cond = ("bool", False)
        else:
            cond = self.ev(c, env, body)
            e1 = dict(env)
        if isinstance(cond, tuple) and cond[0] == "bool":
            if cond[1]:
                r = self.ev(n["then"], e1, body)
                env.update({k: v for k, v in e1.items() if k in env})
                return r
            if "else" in n:
                return self.ev(n["else"], env, body)
            return ("unit",)
        lab = "if@%s" % n.get("l")
        e2 = dict(env)
        rel = cond if isinstance(cond, tuple) and cond[0] == "cmp" else None
        neg = {"Lt": "Ge", "Ge": "Lt", "Gt": "Le", "Le": "Gt", "Eq": "Ne", "Ne": "Eq"}
        saved = self.assume
        if rel:
            self.assume = dict(saved)
            self.assume["__rel__"] = tuple(saved.get("__rel__", ())) + ((rel[1], rel[2], rel[3]),)
        v1, a1 = self.branch(lab + ":then", lambda: self.ev(n["then"], e1, body))
        self.assume = saved
        if "else" in n:
            if rel:
                self.assume = dict(saved)
                self.assume["__rel__"] = tuple(saved.get("__rel__", ())) + ((neg[rel[1]], rel[2], rel[3]),)
            v2, a2 = self.branch(lab + ":else", lambda: self.ev(n["else"], e2, body))
            self.assume = saved
        else:
            v2, a2 = ("unit",), False
        for k_ in list(env):
            x, y = e1.get(k_, env[k_]), e2.get(k_, env[k_])
            if a1:
                env[k_] = y
            elif a2:
                env[k_] = x
            else:
                env[k_] = x if x == y else self.join([x, y])
        if a1 and a2:
            raise Abort()
        return self.join(([] if a1 else [v1]) + ([] if a2 else [v2]))

    def ev_Match(self, n, env, body):
        if n.get("src") == "Try":
            sc = n["scrut"]
            if sc.get("k") == "Call" and sc.get("args"):
                v = self.ev(sc["args"][0], env, body)
                if isinstance(v, tuple) and v and v[0] == "err":
                    raise Ret(v)
                return v
        if n.get("src") == "For":
            return self.ev_for(n, env, body)
        sv = self.ev(n["scrut"], env, body)
        # a decoder field already matched on this path keeps the value it was matched to
        sv_obj = sv[1] if isinstance(sv, tuple) and sv[0] == "obj" and "(" in str(sv[1]) else None
        unit_only = all(p.get("k") in ("Path", "Wild", "Bind") for a in n["arms"] for p in pat_leaves(a["pat"]))
        if sv_obj is not None:
            self.h.discr.add(sv_obj)
        if sv_obj is not None and ("obj", sv_obj) in self.assume and unit_only:
            sv = ("path", self.assume[("obj", sv_obj)])
            sv_obj = None
        # known scrutinee: select the arm
        arms = n["arms"]
        sel = None
        if isinstance(sv, tuple) and sv[0] == "ordcmp":
            e = weq(sv[1], sv[2], self.assume)
            lt = wlt(sv[1], sv[2], self.assume)
            if e is True:
                sv = ("path", "std::cmp::Ordering::Equal")
            elif lt is True:
                sv = ("path", "std::cmp::Ordering::Less")
            elif isinstance(wnorm(sv[1], self.assume), int) and isinstance(wnorm(sv[2], self.assume), int):
                sv = ("path", "std::cmp::Ordering::Greater")
        if isinstance(sv, tuple) and sv[0] in ("int", "path", "bool", "none") and (sv[0] != "int" or isinstance(sv[1], int)):
            for a in arms:
                hit = self.pat_hit(a["pat"], sv)
                if hit is None:
                    sel = None
                    break
                if hit and "guard" in a:
                    # a guarded arm is taken only when its guard is known to hold
                    e1 = dict(env)
                    self.bind(a["pat"], sv, e1)
                    gv = self.ev(a["guard"], e1, body)
                    if isinstance(gv, tuple) and gv[0] == "bool" and gv[1] in (True, False):
                        hit = gv[1]
                    else:
                        sel = None
                        break
                if hit:
                    sel = a
                    break
        if sel is not None:
            e1 = dict(env)
            self.bind(sel["pat"], sv, e1)
            r = self.ev(sel["body"], e1, body)
            env.update({k: v for k, v in e1.items() if k in env})
            return r
        vals, envs = [], []
        lab = "match@%s" % n.get("l")
        # a decoder object whose variant (or whose fields' variants) were assumed: arms that contradict the assumption are infeasible
        obj_path = sv[1] if isinstance(sv, tuple) and sv[0] == "obj" and "(" in str(sv[1]) else None
        if obj_path is not None and any(isinstance(k_, tuple) and k_[0] == "obj" and str(k_[1]).startswith(obj_path) for k_ in self.assume):
            feas = [a for a in arms if self.pat_feasible(a["pat"], obj_path) is not False]
            if feas:
                arms = feas
        for i, a in enumerate(arms):
            e1 = dict(env)
            structured = isinstance(sv, tuple) and (sv[0] in ("tuple", "rec") or (sv[0] in ("obj", "ctor") and not str(sv[1]).startswith("ctor:")))
            self.bind(a["pat"], sv if self.transparent(a["pat"]) or structured else UNK, e1)
            saved_assume = dict(self.assume)
            # width refinement: `match x.bits() { 16 => .. }`
            if isinstance(sv, tuple) and sv[0] == "int" and sv[1] is not None and not isinstance(sv[1], int):
                lits = [int_pat(p) for p in pat_leaves(a["pat"])]
                if len(lits) == 1 and lits[0] is not None:
                    self.assume[sv[1]] = lits[0]
            if isinstance(sv, tuple) and sv[0] == "ordcmp":
                names = {last_seg(pat_path(p) or "") for p in pat_leaves(a["pat"])}
                relop = {"Less": "Lt", "Equal": "Eq", "Greater": "Gt"}
                if len(names) == 1 and next(iter(names)) in relop:
                    self.assume = dict(self.assume)
                    self.assume["__rel__"] = tuple(self.assume.get("__rel__", ())) + ((relop[next(iter(names))], sv[1], sv[2]),)
            if sv_obj is not None and a["pat"].get("k") == "Path":
                d_ = a["pat"]["path"].get("ctor_of") or a["pat"]["path"].get("def")
                if d_:
                    self.assume = dict(self.assume)
                    self.assume[("obj", sv_obj)] = d_
            if "guard" in a:
                self.ev(a["guard"], e1, body)
            v, ab = self.branch("%s:%d" % (lab, i), lambda: self.ev(a["body"], e1, body))
            self.assume = saved_assume
            if not ab:
                vals.append(v)
                envs.append(e1)
        for k_ in list(env):
            xs = [e.get(k_, env[k_]) for e in envs]
            if xs:
                env[k_] = xs[0] if all(x == xs[0] for x in xs) else self.join(xs)
        if not vals:
            raise Abort()
        return self.join(vals)

    def transparent(self, pat):
        k = pat.get("k")
        if k == "Bind":
            return True
        if k in ("Ref", "Deref", "Box"):
            return self.transparent(pat["p"])
        if k == "TupleStruct":
            return last_seg(pat["path"].get("ctor_of") or "") in ("Some", "Ok")
        return False

    def pat_feasible(self, pat, path):
        """False if the pattern cannot match the decoder object at `path` under the current assumptions; None/True otherwise."""
        k = pat.get("k")
        if k in ("Wild", "Bind"):
            return True
        if k in ("Ref", "Deref", "Box"):
            return self.pat_feasible(pat["p"], path)
        if k == "Or":
            rs = [self.pat_feasible(p, path) for p in pat["ps"]]
            return False if all(r is False for r in rs) else True
        if k in ("Path", "Struct", "TupleStruct"):
            d = pat["path"].get("ctor_of") or pat["path"].get("def")
            want = self.assume.get(("obj", path))
            if want is not None and d is not None and want != d:
                return False
            if k == "Struct":
                for f in pat["fields"]:
                    if self.pat_feasible(f["p"], "%s.%s" % (path, f["n"])) is False:
                        return False
            if k == "TupleStruct":
                for i, p in enumerate(pat["ps"]):
                    if self.pat_feasible(p, "%s.%d" % (path, i)) is False:
                        return False
            return True
        return None

    def pat_hit(self, pat, sv):
        k = pat.get("k")
        if k == "Wild" or (k == "Bind" and "sub" not in pat):
            return True
        if k == "Or":
            rs = [self.pat_hit(p, sv) for p in pat["ps"]]
            if any(r is True for r in rs):
                return True
            return None if any(r is None for r in rs) else False
        if k == "Lit":
            v = pat["v"]
            if sv[0] == "int" and "int" in v:
                return sv[1] == v["int"]
            if sv[0] == "bool" and "bool" in v:
                return sv[1] == v["bool"]
            return None
        if k == "Range":
            lo = int_pat(pat["lo"]) if pat.get("lo") else None
            hi = int_pat(pat["hi"]) if pat.get("hi") else None
            if sv[0] == "int" and lo is not None and hi is not None:
                return lo <= sv[1] <= hi if pat.get("end") == "Included" else lo <= sv[1] < hi
            return None
        if k == "Path":
            d = pat["path"].get("ctor_of") or pat["path"].get("def") or ""
            if sv[0] == "path":
                return sv[1] == d
            if sv[0] == "none":
                return last_seg(d) == "None"
            return None
        if k == "TupleStruct":
            if sv[0] == "none":
                return False if last_seg(pat["path"].get("ctor_of") or "") == "Some" else None
            return None
        return None

    def ev_for(self, n, env, body):
        # `for pat in iter { body }` desugared: match IntoIterator::into_iter(iter) { mut iter => loop { match next(&mut iter) {..} } }
        it = n["scrut"]
        self.ev(it, env, body)
        # find the user pattern and body: innermost arm with pattern Some(pat)
        target = None
        tpat = None
        for x in walk(n):
            if x.get("k") == "Match" and x.get("src") == "For" and x is not n and target is None:
                for a in x["arms"]:
                    p = a["pat"]
                    if p.get("k") == "TupleStruct" and last_seg(p["path"].get("ctor_of") or "") == "Some":
                        target, tpat = a, p
                    elif p.get("k") == "Struct" and last_seg(p["path"].get("def") or "") == "Some" and p.get("fields"):
                        target, tpat = a, p["fields"][0]["p"]
        if target is None:
            for a in n["arms"]:
                for x in walk(a["body"]):
                    if x.get("k") == "Match":
                        for b in x["arms"]:
                            if b["pat"].get("k") == "TupleStruct" and last_seg(b["pat"]["path"].get("ctor_of") or "") == "Some":
                                target = b
        if target is None:
            return ("unit",)
        e1 = dict(env)
        self.bind(tpat if tpat is not None else target["pat"], UNK, e1)
        self.widen(target["body"], e1)
        self.branch("loop@%s" % n.get("l"), lambda: self.ev(target["body"], e1, body))
        for k_ in list(env):
            if e1.get(k_) != env[k_]:
                env[k_] = self.join([env[k_], e1.get(k_, UNK)])
        return ("unit",)

    def widen(self, node, env):
        for x in walk(node):
            if x.get("k") in ("Assign", "AssignOp"):
                lhs = strip(x["lhs"])
                if lhs.get("k") == "Path" and "local" in lhs["res"] and lhs["res"]["hid"] in env:
                    v = env[lhs["res"]["hid"]]
                    env[lhs["res"]["hid"]] = opaque(width_of(v), "loop", orig(v)) if is_il(v) else (I(None) if isinstance(v, tuple) and v[0] == "int" else UNK)

    def ev_Loop(self, n, env, body):
        e1 = dict(env)
        self.widen(n["body"], e1)
        self.branch("loop@%s" % n.get("l"), lambda: self.ev(n["body"], e1, body))
        for k_ in list(env):
            if e1.get(k_) != env[k_]:
                env[k_] = self.join([env[k_], e1.get(k_, UNK)])
        return ("unit",)

    # ------------------------------------------------------------------ calls
    def ev_Call(self, n, env, body):
        fn = n.get("fn")
        if fn is None:
            f = self.ev(n["fe"], env, body)
            args = [self.ev(a, env, body) for a in n["args"]]
            return self.apply(f, args)
        if "local" in fn:
            args = [self.ev(a, env, body) for a in n["args"]]
            return self.apply(env.get(fn["hid"], UNK), args)
        d = fn.get("ctor_of") or fn.get("def") or ""
        if d in ("std::mem::swap", "core::mem::swap") and len(n["args"]) == 2:
            ps = [strip(a) for a in n["args"]]
            ps = [strip(a["e"]) if a.get("k") == "AddrOf" else a for a in ps]
            if all(a.get("k") == "Path" and "local" in a.get("res", {}) and a["res"]["hid"] in env for a in ps):
                h0, h1 = ps[0]["res"]["hid"], ps[1]["res"]["hid"]
                env[h0], env[h1] = env[h1], env[h0]
                return ("unit",)
        args = [self.ev(a, env, body) for a in n["args"]]
        if "ctor_of" in fn:
            name = last_seg(d)
            if name in ("Some", "Ok"):
                return args[0] if args else ("unit",)
            if name == "Err":
                return ("err",)
            if name == "Included" or name == "Excluded":
                return args[0]
            if d.startswith("il::expression::Expression::"):
                if name in ("Scalar", "Constant") and args:
                    if name == "Scalar" and isinstance(args[0], tuple) and args[0][0] == "sc" and isinstance(args[0][1], str):
                        self.h.reads.add(args[0][1])
                    return to_expr(args[0])
                low = name.lower()
                if low in BINOPS or low in CMPOPS or low in ("zext", "sext", "trun", "ite"):
                    return self.expr_ctor(low, args, n)
            if args and d.startswith("translator::"):
                return ("ctor", name, tuple(args))
            return ("obj", "ctor:" + name)
        return self.call(d, args, n, body)

    def ev_MethodCall(self, n, env, body):
        recv = self.ev(n["recv"], env, body)
        args = [self.ev(a, env, body) for a in n["args"]]
        d = n.get("m") or ""
        return self.call(d, [recv] + args, n, body, method=n["name"])

    def apply(self, f, args):
        if isinstance(f, tuple) and f[0] == "closure":
            _, node, cenv, cbody = f[:4]
            e1 = dict(cenv)
            for p, a in zip(node["params"], args):
                self.bind(p, a, e1)
            saved_fn = self.cur_fn
            if len(f) > 4 and f[4]:
                self.cur_fn = f[4]
            try:
                return self.ev(node["body"], e1, cbody)
            except Ret as r:
                return r.v
            finally:
                self.cur_fn = saved_fn
        return UNK

    def call(self, d, args, n, body, method=None):
        name = last_seg(d)
        self.h.calls.add(d)
        # ---- IL DSL
        if d in ("il::expr_const", "il::const_", "il::constant::Constant::new"):
            val, w = as_int(args[0]), as_int(args[1])
            if w is None:
                w = ("bits", self.key("w"))
            if d == "il::expr_const":
                if isinstance(val, int):
                    return E(w, ("const", val), orig(args[1]))
                return E(w, ("const", None, self.key("c")), orig(args[1]))
            return ("k", w, val if isinstance(val, int) else None, orig(args[1]))
        if d in ("il::scalar", "il::scalar::Scalar::new", "il::expr_scalar"):
            nm = args[0][1] if isinstance(args[0], tuple) and args[0][0] == "str" else None
            w = as_int(args[1])
            if w is None:
                w = ("bits", self.key("w"))
            if d == "il::expr_scalar":
                if nm:
                    self.h.reads.add(nm)
                return E(w, ("scalar", nm), orig(args[1]))
            return ("sc", nm, w, orig(args[1]))
        if d in ("il::scalar::Scalar::temp",):
            return ("sc", "temp", self.wf(args[1]), orig(args[1]))
        if d in ("il::control_flow_graph::ControlFlowGraph::temp", "translator::x86::semantics::Semantics::temp"):
            return ("sc", "temp", self.wf(args[-1]), orig(args[-1]))
        if name == "cmp" and len(args) == 2 and all(isinstance(a, tuple) and a[0] == "int" for a in args) \
                and args[0][1] is not None and args[1][1] is not None:
            return ("ordcmp", args[0][1], args[1][1])
        if d in ("il::expression::Expression::bits", "il::scalar::Scalar::bits", "il::constant::Constant::bits",
                 "<il::expression::Expression as memory::value::Value>::bits"):
            w = width_of(args[0])
            if w is None:
                w = ("bits", self.key("unk"))
            return ("int", w, orig(args[0]))
        if d.startswith(EXPR):
            return self.expr_ctor(name, args, n)
        if d == "il::scalar::Scalar::name":
            return ("str", args[0][1] if isinstance(args[0], tuple) and args[0][0] == "sc" else None)
        # ---- block / cfg
        if d.startswith("il::block::Block::"):
            return self.block_op(name, args, n)
        if d.startswith("il::control_flow_graph::ControlFlowGraph::"):
            return self.cfg_op(name, args, n)
        # ---- conversions and plumbing
        if name in ("clone", "into", "from", "unwrap", "expect", "to_owned", "as_ref", "as_mut", "borrow", "deref",
                    "to_string", "ok_or", "ok_or_else", "map_err", "cloned", "copied", "unwrap_or_default", "as_str",
                    "iter", "into_iter", "to_vec", "into_vec", "new_box", "as_deref") \
                and not d.startswith("translator::"):
            if name in ("to_string",) and not (isinstance(args[0], tuple) and args[0][0] == "str"):
                return ("str", None)
            if d.endswith("Box::<T>::new") or name in ("new_box",):
                return args[0]
            if name == "from" and len(args) == 1:
                return self.convert(args[0])
            if name == "into":
                return self.convert(args[0])
            return args[0] if args else UNK
        if d.endswith("Box::<T>::new") or d.endswith("Box::<T, A>::new"):
            return args[0]
        if name in ("format", "must_use") or d.startswith("std::fmt::") or d.startswith("core::fmt::"):
            return ("str", None)
        if d.endswith("Vec::<T>::new") or d.endswith("::default") and "Vec" in d:
            return ("list", [])
        if name == "push" and len(args) > 1:
            if isinstance(args[0], tuple) and args[0][0] == "list":
                args[0][1].append(args[1])
            rt = n.get("recv", {}).get("ta", n.get("recv", {}).get("t")) if isinstance(n.get("recv"), dict) else None
            rty = body["types"][rt] if rt is not None else ""
            if "(u64, std::option::Option<il::expression::Expression>)" in rty:
                self.note_successor(args, n)
            return ("unit",)
        if name == "len" and args and isinstance(args[0], tuple) and args[0][0] == "list":
            return I(None)
        if name in ("is_some", "is_none", "is_empty", "contains", "contains_key"):
            return UNK
        if name == "map" and len(args) == 2:
            return self.apply(args[1], [args[0]]) if not (isinstance(args[0], tuple) and args[0][0] == "none") else ("none",)
        if name in ("and_then",) and len(args) == 2:
            return self.apply(args[1], [args[0]])
        if name in ("unwrap_or", "unwrap_or_else") and args:
            return args[0] if not (isinstance(args[0], tuple) and args[0][0] in ("none", "unk")) else UNK
        # ---- register tables
        r = self.registers(d, name, args, n)
        if r is not None:
            return r
        # ---- falcon-local helper: interpret in place
        if d in self.db.hir and d.startswith("translator::") and self.depth < MAX_INLINE and d not in self.stack:
            return self.inline(d, args, n)
        # ---- fallback by result type
        t = n.get("t")
        ty = body["types"][t] if t is not None else ""
        v = self.by_type(ty)
        # pure accessor of a decoder object (capstone / bad64): the same path denotes the same value
        if method is not None and len(args) == 1 and isinstance(args[0], tuple) and args[0][0] == "obj" and d not in self.db.hir \
                and isinstance(v, tuple) and v[0] == "obj":
            return ("obj", "%s.%s()" % (args[0][1], name))
        return v

    def by_type(self, ty):
        if "il::expression::Expression" in ty:
            return opaque(("bits", self.key("ret")), self.key("call"))
        if "il::scalar::Scalar" in ty and "Vec" not in ty:
            return ("sc", None, ("bits", self.key("ret")))
        if ty in ("usize", "u64", "u32", "i64", "u8", "u16", "isize", "i32"):
            return I(("sym", self.key("n")))
        if ty == "bool":
            return UNK
        return ("obj", self.key("obj"))

    def convert(self, v):
        if isinstance(v, tuple) and v[0] in ("sc", "k"):
            return to_expr(v)
        return v

    def inline(self, d, args, n):
        cb = self.db.hir[d]
        env = {}
        for i, p in enumerate(cb["params"]):
            self.bind(p, args[i] if i < len(args) else UNK, env)
        self.depth += 1
        self.stack.append(d)
        saved_fn, saved_ctx, saved_act = self.cur_fn, self.ctx, self.act
        self.act_counter += 1
        self.act = self.act_counter
        self.cur_fn = d
        self.ctx = self.ctx + ("call:%s@%s" % (last_seg(d), n.get("l")),)
        self.rets.append([])
        try:
            try:
                v = self.ev(cb["body"], env, cb)
            except Ret as r:
                v = r.v
            except Abort:
                v = UNK
            extra = self.rets.pop()
            if extra:
                v = self.join([v] + extra)
            if not isinstance(v, tuple) or v[0] in ("unk", "never", "err", "obj", "unit"):
                out = cb.get("output", "")
                if "il::expression::Expression" in out and "Vec" not in out and "(" not in out:
                    v = opaque(("bits", self.key("ret")), self.key("call"))
                elif "il::scalar::Scalar" in out and "Vec" not in out and "(" not in out:
                    v = ("sc", None, ("bits", self.key("ret")), None)
                elif (not isinstance(v, tuple) or v[0] in ("unk", "obj")) and args and "&mut" not in " ".join(cb.get("inputs") or []) \
                        and all(isinstance(a, tuple) and a[0] == "obj" for a in args):
                    # decoder accessor helper (details(instruction)): the same arguments denote the same object
                    v = ("obj", "%s(%s)" % (last_seg(d), ",".join(a[1] for a in args)))
            return v
        finally:
            self.depth -= 1
            self.stack.pop()
            self.cur_fn, self.ctx, self.act = saved_fn, saved_ctx, saved_act

    # ------------------------------------------------------------------ IL constructors with obligations
    def expr_ctor(self, name, args, n):
        a = [to_expr(x) if isinstance(x, tuple) and x[0] in ("e", "sc", "k") else x for x in args]
        if name in BINOPS or name in CMPOPS or name in DERIVED:
            if len(a) != 2 or not is_il(a[0]) or not is_il(a[1]):
                l = a[0] if a and is_il(a[0]) else opaque(None)
                r = a[1] if len(a) > 1 and is_il(a[1]) else opaque(None)
            else:
                l, r = a
            self.oblige_eq("binop_sort", l[1], r[1], n, "%s operands" % name, orig(l), orig(r))
            op = BINOPS.get(name) or CMPOPS.get(name) or DERIVED.get(name)
            self.h.ops_used.add(op)
            self.record_op(op)
            w = 1 if name in CMPOPS else (l[1] if l[1] is not None else r[1])
            o = self.act if name in CMPOPS else (orig(l) if l[1] is not None else orig(r))
            return E(w, trim(("op", op, (l, r))), o)
        if name in ("zext", "sext", "trun"):
            bits = self.wf(args[0])
            src = a[1] if len(a) > 1 and is_il(a[1]) else opaque(("bits", self.key("w")))
            lt = wlt(src[1], bits, self.assume) if name != "trun" else wlt(bits, src[1], self.assume)
            nb, ns = wnorm(bits, self.assume), wnorm(src[1], self.assume)
            via_rel = lt is False and not (isinstance(nb, int) and isinstance(ns, int))
            self.oblige(name, "proved" if lt is True else "refuted" if lt is False else "open", n,
                        "%s to %s of a %s-bit value" % (name, show_w(nb), show_w(ns)), orig(args[0]), orig(src), via_rel)
            self.h.ops_used.add(name.capitalize())
            self.record_op(name.capitalize())
            return E(bits, trim(("op", name.capitalize(), (src,))), orig(args[0]))
        if name == "ite":
            c, t, e = [x if is_il(x) else opaque(None) for x in (a + [UNK, UNK, UNK])[:3]]
            self.oblige_eq("ite_cond", c[1], 1, n, "ite condition width", orig(c), "G")
            self.oblige_eq("ite_arms", t[1], e[1], n, "ite arms", orig(t), orig(e))
            self.h.ops_used.add("Ite")
            self.record_op("Ite")
            return E(t[1] if t[1] is not None else e[1], trim(("op", "Ite", (c, t, e))), orig(t) if t[1] is not None else orig(e))
        if name in ("scalar", "constant"):
            return to_expr(args[0]) if args else opaque(None)
        if name == "replace_scalar":
            return opaque(width_of(args[0]), "replace", orig(args[0]))
        return UNK

    def record_op(self, op):
        """IL operator constructed in function self.cur_fn (for the direct / plumbing split of effect signatures)."""
        self.h.op_sites = getattr(self.h, "op_sites", {})
        self.h.op_sites.setdefault(op, set()).add(self.cur_fn)

    def block_op(self, name, args, n):
        blk = args[0] if args else UNK
        bid = blk[1] if isinstance(blk, tuple) and blk[0] == "block" else "?"
        if name == "index":
            return ("bidx", bid)
        if name == "assign" and len(args) == 3:
            dst, src = args[1], to_expr(args[2])
            dw = width_of(dst)
            self.oblige_eq("assign", dw, src[1], n, "assignment %s" % ((dst[1],) if isinstance(dst, tuple) and dst[0] == "sc" else "?"),
                           orig(dst), orig(src))
            self.h.ops.append({"kind": "Assign", "block": bid, "ctx": self.ctx, "line": n.get("l"), "fn": self.cur_fn,
                               "dst": dst[1] if isinstance(dst, tuple) and dst[0] == "sc" else None, "dw": dw, "src": src,
                               "dst_id": dst[4] if isinstance(dst, tuple) and dst[0] == "sc" and len(dst) > 4 else None})
            return ("unit",)
        if name == "load" and len(args) == 3:
            dst, addr = args[1], to_expr(args[2])
            dw = width_of(dst)
            self.mult8("load_width", dw, n, orig(dst))
            self.h.ops.append({"kind": "Load", "block": bid, "ctx": self.ctx, "line": n.get("l"), "fn": self.cur_fn,
                               "dst": dst[1] if isinstance(dst, tuple) and dst[0] == "sc" else None, "dw": dw, "addr": addr,
                               "dst_id": dst[4] if isinstance(dst, tuple) and dst[0] == "sc" and len(dst) > 4 else None})
            return ("unit",)
        if name == "store" and len(args) == 3:
            addr, src = to_expr(args[1]), to_expr(args[2])
            self.mult8("store_width", src[1], n, orig(src))
            self.h.ops.append({"kind": "Store", "block": bid, "ctx": self.ctx, "line": n.get("l"), "fn": self.cur_fn,
                               "addr": addr, "src": src, "sw": src[1]})
            return ("unit",)
        if name == "branch" and len(args) == 2:
            self.h.ops.append({"kind": "Branch", "block": bid, "ctx": self.ctx, "line": n.get("l"), "fn": self.cur_fn,
                               "target": to_expr(args[1])})
            return ("unit",)
        if name == "intrinsic":
            self.h.ops.append({"kind": "Intrinsic", "block": bid, "ctx": self.ctx, "line": n.get("l"), "fn": self.cur_fn})
            return ("unit",)
        if name in ("nop", "placeholder"):
            self.h.ops.append({"kind": "Nop", "block": bid, "ctx": self.ctx, "line": n.get("l"), "fn": self.cur_fn})
            return ("unit",)
        return UNK

    def mult8(self, kind, w, n, o=None):
        w = wnorm(w, self.assume)
        if isinstance(w, int):
            self.oblige(kind, "proved" if w > 0 and w % 8 == 0 else "refuted", n, "%s of %d bits" % (kind, w), o or "G", "G")
        else:
            self.oblige(kind, "open", n, "%s of %s bits" % (kind, show_w(w)))

    def cfg_op(self, name, args, n):
        if name == "new_block":
            self.h.blocks += 1
            return ("block", "b%d@%s" % (self.h.blocks, n.get("l")))
        if name in ("conditional_edge", "unconditional_edge"):
            head, tail = args[1], args[2]
            guard = to_expr(args[3]) if name == "conditional_edge" and len(args) > 3 else None
            if guard is not None:
                self.oblige_eq("guard_width", guard[1], 1, n, "edge guard width", orig(guard), "G")
            self.h.edges.append({"kind": "cond" if guard is not None else "uncond", "head": head, "tail": tail,
                                 "guard": guard, "ctx": self.ctx, "line": n.get("l"), "fn": self.cur_fn})
            return ("unit",)
        if name == "set_entry":
            self.h.entry.append((args[1], self.ctx))
            return ("unit",)
        if name == "set_exit":
            self.h.exit.append((args[1], self.ctx))
            return ("unit",)
        if name in ("entry", "exit"):
            return ("bidx", name)
        if name == "block_mut" or name == "block":
            b = args[1]
            return ("block", b[1] if isinstance(b, tuple) and b[0] == "bidx" else "?")
        if name == "temp":
            return ("sc", "temp", self.wf(args[1]), orig(args[1]))
        return UNK

    def wf(self, v):
        w = as_int(v)
        return w if w is not None else ("bits", self.key("w"))

    def note_successor(self, args, n):
        v = args[1]
        if isinstance(v, tuple) and v[0] == "tuple" and len(v[1]) == 2:
            g = v[1][1]
            guard = None
            if isinstance(g, tuple) and g[0] == "e":
                guard = g
                self.oblige_eq("guard_width", g[1], 1, n, "successor guard width", orig(g), "G")
            elif isinstance(g, tuple) and g[0] == "none":
                guard = None
            else:
                guard = "?"
            self.h.succ.append({"guard": guard, "ctx": self.ctx, "line": n.get("l"), "fn": self.cur_fn, "addr": v[1][0]})

    # ------------------------------------------------------------------ register tables
    def registers(self, d, name, args, n):
        # ---- x86
        if d in ("translator::x86::semantics::Semantics::get_register", "translator::x86::mode::Mode::get_register",
                 "translator::x86::x86register::get_register"):
            rid = args[-1]
            if isinstance(rid, tuple) and rid[0] == "path":
                k = last_seg(rid[1])
                modes = ("X86", "Amd64")
                if len(args) > 1 and isinstance(args[0], tuple) and args[0][0] == "path" and last_seg(args[0][1]) in modes:
                    modes = (last_seg(args[0][1]),)
                rows = {m: self.x86rows[m].get(k) for m in modes}
                if any(rows.values()):
                    return ("reg", "x86", rows, k)
            if isinstance(rid, tuple) and rid[0] == "obj" and ("()" in rid[1] or "param" in rid[1]):
                return ("reg", "x86", None, "x86reg:" + rid[1])
            return ("reg", "x86", None, self.key("x86reg"))
        if d.startswith("translator::x86::x86register::X86Register::") and args and isinstance(args[0], tuple) and args[0][0] == "reg":
            reg = args[0]
            rows = reg[2]
            bits = self.x86_bits(reg)
            if name == "bits":
                return ("int", bits, "G")
            if name == "name":
                return ("str", None)
            if name == "is_full":
                return UNK
            if name == "get_full":
                if rows:
                    full = {}
                    for m, r in rows.items():
                        if r:
                            full[m] = self.x86rows[m].get(last_seg(r["full_reg"]))
                    return ("reg", "x86", full, "full:" + str(reg[3]))
                return ("reg", "x86", None, "full:" + str(reg[3]))
            if name == "get":
                for nm in self.x86_full_names(reg):
                    self.h.reads.add(nm)
                return opaque(bits, "reg:%s" % (reg[3],), "G")
            if name == "set" and len(args) == 3:
                v = to_expr(args[2])
                self.oblige_eq("reg_set", bits, v[1], n, "register write width", "G", orig(v))
                blk = args[1]
                fw = self.x86_bits(("reg", "x86", {m: self.x86rows[m].get(last_seg(r["full_reg"])) for m, r in rows.items() if r} if rows else None, "f"))
                self.h.ops.append({"kind": "Assign", "block": blk[1] if isinstance(blk, tuple) and blk[0] == "block" else "?",
                                   "ctx": self.ctx, "line": n.get("l"), "fn": self.cur_fn, "dst": tuple(sorted(self.x86_full_names(reg))) or None,
                                   "dw": fw, "src": v, "via": "X86Register::set", "reg": str(reg[3]),
                                   "dst_id": None if rows else str(reg[3])[5:] if str(reg[3]).startswith("full:") else str(reg[3])})
                return ("unit",)
        if d in ("translator::x86::mode::Mode::bits",):
            return ("int", ("sym", "mode.bits"), "G")
        # ---- mips / ppc
        for arch in ("mips", "ppc"):
            pre = "translator::%s::semantics::" % arch
            # the register type and its lookup may live in any module of the architecture's translator
            if d.startswith("translator::%s::" % arch) and not d.startswith(pre):
                tail_ = d.split("::")[3:]
                if tail_ and tail_[-1] in ("get_register", "scalar", "expression", "name") and \
                        (tail_[-1] == "get_register" or (len(tail_) >= 2 and tail_[-2].endswith("Register"))):
                    d = pre + "::".join(tail_[-2:] if tail_[-1] != "get_register" else tail_[-1:])
            if d == pre + "get_register":
                a = args[-1] if args else None
                if isinstance(a, tuple) and a[0] == "obj" and "()" in a[1]:
                    return ("reg", arch, None, "%sreg:%s" % (arch, a[1]))
                return ("reg", arch, None, self.key(arch + "reg"))
            if d in (pre + "MipsRegister::scalar", pre + "PPCRegister::scalar", pre + "PpcRegister::scalar") and not (
                    args and isinstance(args[0], tuple) and args[0][0] == "reg"):
                return ("sc", None, self.col[arch], "G")
            if d in (pre + "MipsRegister::expression", pre + "PPCRegister::expression", pre + "PpcRegister::expression") and not (
                    args and isinstance(args[0], tuple) and args[0][0] == "reg"):
                return opaque(self.col[arch], "reg:%s" % self.key(arch + "reg"), "G")
            if d.startswith(pre) and args and isinstance(args[0], tuple) and args[0][0] == "reg" and args[0][1] == arch:
                if name == "scalar":
                    return ("sc", None, self.col[arch], "G", args[0][3])
                if name == "expression":
                    return opaque(self.col[arch], "reg:%s" % (args[0][3],), "G")
                if name == "name":
                    return ("str", None)
        # ---- aarch64
        if d == "translator::aarch64::register::get_register":
            rid = args[-1]
            if isinstance(rid, tuple) and rid[0] == "path" and last_seg(rid[1]) in self.a64rows:
                return ("reg", "a64", self.a64rows[last_seg(rid[1])], last_seg(rid[1]))
            if isinstance(rid, tuple) and rid[0] == "obj" and "param" in rid[1]:
                return ("reg", "a64", None, "a64reg:" + rid[1])
            return ("reg", "a64", None, self.key("a64reg"))
        if d.startswith("translator::aarch64::register::AArch64Register::") and args and isinstance(args[0], tuple) and args[0][0] == "reg":
            reg = args[0]
            bits = reg[2]["bits"] if reg[2] else ("bits", reg[3])
            if name == "bits":
                return ("int", bits, "G")
            if name == "name":
                return ("str", reg[2]["name"] if reg[2] else None)
            if name == "get":
                return opaque(bits, "reg:%s" % (reg[3],), "G")
            if name == "get_full":
                if reg[2]:
                    full = self.a64rows.get(last_seg(reg[2]["bad64_full_reg"]))
                    return ("reg", "a64", full, "full:" + reg[3])
                return ("reg", "a64", None, "full:" + str(reg[3]))
            if name == "set" and len(args) == 3:
                v = to_expr(args[2])
                le = wlt(bits, v[1], self.assume)
                self.oblige("reg_set", "refuted" if le is True else "open" if le is None else "proved", n,
                            "register write: %s-bit value into %s-bit register" % (show_w(wnorm(v[1], self.assume)), show_w(bits)),
                            "G", orig(v))
                blk = args[1]
                full = self.a64rows.get(last_seg(reg[2]["bad64_full_reg"])) if reg[2] else None
                self.h.ops.append({"kind": "Assign", "block": blk[1] if isinstance(blk, tuple) and blk[0] == "block" else "?",
                                   "ctx": self.ctx, "line": n.get("l"), "fn": self.cur_fn,
                                   "dst": full["name"] if full else None, "dw": full["bits"] if full else None,
                                   "src": v, "via": "AArch64Register::set",
                                   "dst_id": None if reg[2] else str(reg[3])[5:] if str(reg[3]).startswith("full:") else str(reg[3])})
                return ("unit",)
        return None

    def x86_bits(self, reg):
        rows = reg[2]
        if rows:
            bs = {r["bits"] for r in rows.values() if r}
            if len(bs) == 1:
                return bs.pop()
            if bs == {32, 64}:
                return ("sym", "mode.bits")
            return None
        return ("bits", reg[3])

    def x86_full_names(self, reg):
        rows = reg[2]
        out = set()
        if rows:
            for m, r in rows.items():
                if r:
                    f = self.x86rows[m].get(last_seg(r["full_reg"]))
                    if f:
                        out.add(f["name"])
        return out


def int_pat(p):
    if p is None:
        return None
    if p.get("k") == "Lit" and "int" in p["v"]:
        return p["v"]["int"]
    return None


def as_int(v):
    if isinstance(v, tuple) and v and v[0] == "int":
        return v[1]
    return None


def show_w(w):
    if w is None:
        return "?"
    if isinstance(w, int):
        return str(w)
    if isinstance(w, tuple):
        if w[0] in ("bits", "sym"):
            return "%s(%s)" % (w[0], w[1])
        return "(%s %s %s)" % (show_w(w[1]), {"add": "+", "sub": "-", "mul": "*", "div": "/"}.get(w[0], w[0]), show_w(w[2]))
    return str(w)


def show_e(e, depth=0):
    if not is_il(e):
        return "?"
    w, s = e[1], e[2]
    if s[0] == "const":
        return "%s:%s" % ("?" if s[1] is None else hex(s[1]), show_w(w))
    if s[0] == "scalar":
        return "%s:%s" % ("|".join(s[1]) if isinstance(s[1], tuple) else s[1] or "?", show_w(w))
    if s[0] == "op" and s[1].startswith("join#"):
        return "<%s:%s>" % (s[1], show_w(w))
    if s[0] == "op" and depth < 4:
        return "%s(%s)" % (s[1], ", ".join(show_e(a, depth + 1) for a in s[2]))
    return "<%s:%s>" % (s[1] if len(s) > 1 else s[0], show_w(w))
