"""Verdict bookkeeping: rule instances, floors, known findings, evidence and replay files."""
import json
import os
import re
import time

VERIF = os.path.dirname(os.path.dirname(os.path.abspath(__file__)))


class AnchorLost(Exception):
    pass


class Rule:
    def __init__(self, rep, rid, kind, text):
        self.rep = rep
        self.id = rid
        self.kind = kind
        self.text = text
        self.instances = []  # dicts: key, verdict(ok|bad|open), where, msg, detail
        self.floors = []

    def _add(self, verdict, key, where, msg, detail):
        self.instances.append(
            {"rule": self.id, "kind": self.kind, "key": "%s|%s" % (self.id, key), "verdict": verdict,
             "where": where, "msg": msg, "detail": detail}
        )

    def ok(self, key, where="", msg="", detail=None):
        self._add("ok", key, where, msg, detail)

    def bad(self, key, where="", msg="", detail=None):
        self._add("bad", key, where, msg, detail)

    def open(self, key, where="", msg="", detail=None):
        self._add("open", key, where, msg, detail)

    def decide(self, cond, key, where="", msg="", detail=None):
        if cond:
            self.ok(key, where, msg, detail)
        else:
            self.bad(key, where, msg, detail)
        return cond

    def floor(self, n, what=""):
        """The number of instances confirmed by hand on the pinned tree; fewer = cannot vouch."""
        self.floors.append((n, what))

    def count(self):
        return len(self.instances)


class Report:
    def __init__(self, prop, tier, seed=0):
        self.prop = prop
        self.tier = tier
        self.seed = seed
        self.rules = []
        self.t0 = time.time()
        self.functions = set()
        self.call_sites = 0
        self.configs = []
        self.trusted = [
            "rustc 1.97.0-nightly type checker, HIR and MIR construction (facts are read from them)",
            "/verif/driver fvdrv fact dumper and /verif/fv rule layer",
        ]
        self.assumptions = []
        self.explanation = ""
        self.exhaustive = False
        self.notes = []

    def rule(self, rid, kind, text):
        r = Rule(self, rid, kind, text)
        self.rules.append(r)
        return r

    def anchor(self, cond, what):
        if not cond:
            raise AnchorLost(what)
        return cond

    def analysed(self, *defs):
        for d in defs:
            self.functions.add(d)

    # ------------------------------------------------------------------ results
    def all_instances(self):
        for r in self.rules:
            for i in r.instances:
                yield i

    def has_unlisted_violation(self):
        known, _fixed = load_known(self.prop)
        return any(i["verdict"] == "bad" and i["key"] not in known for i in self.all_instances())

    def check_floors(self):
        for r in self.rules:
            for n, what in r.floors:
                if r.count() < n:
                    raise AnchorLost(
                        "rule %s evaluated %d instances, fewer than the %d confirmed on the pinned tree (%s)"
                        % (r.id, r.count(), n, what)
                    )


def load_known(prop):
    """Returns (known: dict key -> text, fixed: list of text) for the property."""
    known, fixed = {}, []
    p = os.path.join(VERIF, "KNOWN_FINDINGS.txt")
    if not os.path.exists(p):
        return known, fixed
    for line in open(p):
        line = line.strip()
        if not line or line.startswith("#"):
            continue
        m = re.match(r"known:\s+property=(\S+)\s+key=(.*?)\s+::\s+(.*)$", line)
        if m and m.group(1) == prop:
            known[m.group(2)] = m.group(3)
            continue
        m = re.match(r"fixed:\s+property=(\S+)\s+(.*)$", line)
        if m and m.group(1) == prop:
            fixed.append(m.group(2))
    return known, fixed


def finish(rep, level="other"):
    """Print verdict lines, write evidence, return exit code."""
    known, fixed = load_known(rep.prop)
    # experiments on scratch copies (sweeps of seeded changes / refactorings) must not overwrite the evidence of /repo
    evdir = os.environ.get("FV_EVIDENCE_DIR") or os.path.join(VERIF, "evidence")
    vdir = os.path.join(evdir, "violations")
    os.makedirs(vdir, exist_ok=True)
    for f in os.listdir(vdir):
        if f.startswith(rep.prop + "-"):
            os.unlink(os.path.join(vdir, f))
    insts = list(rep.all_instances())
    bad = [i for i in insts if i["verdict"] == "bad"]
    violations, known_hits = [], []
    for i in bad:
        if i["key"] in known:
            known_hits.append(i)
        else:
            violations.append(i)
    for i in known_hits:
        print("KNOWN-FINDING: property=%s %s [%s] %s" % (rep.prop, known[i["key"]], i["key"], i["where"]))
    n = 0
    for i in violations:
        n += 1
        path = os.path.join(vdir, "%s-%d.json" % (rep.prop, n))
        rule = next(r for r in rep.rules if r.id == i["rule"])
        json.dump(
            {"property": rep.prop, "rule": i["rule"], "kind": i["kind"], "rule_text": rule.text,
             "key": i["key"], "where": i["where"], "message": i["msg"], "detail": i["detail"],
             "replay": "python3 fv/check.py %s --replay %s" % (rep.prop, path)},
            open(path, "w"), indent=1, default=str)
        print("  rule %s [%s] at %s: %s" % (i["rule"], i["kind"], i["where"], i["msg"]))
        print("VIOLATION property=%s replay=%s" % (rep.prop, path))
    # evidence
    okc = sum(1 for i in insts if i["verdict"] == "ok")
    openc = sum(1 for i in insts if i["verdict"] == "open")
    distinct = len({i["key"] for i in insts if i["verdict"] != "open"})
    samples = []
    per_rule = {}
    for r in rep.rules:
        per_rule[r.id] = {
            "kind": r.kind, "text": r.text, "instances": r.count(),
            "ok": sum(1 for i in r.instances if i["verdict"] == "ok"),
            "bad": sum(1 for i in r.instances if i["verdict"] == "bad"),
            "undecided": sum(1 for i in r.instances if i["verdict"] == "open"),
            "floors": [{"min": n, "what": w} for n, w in r.floors],
        }
        for i in r.instances[:2]:
            samples.append({k: i[k] for k in ("key", "verdict", "where", "msg", "detail")})
    undec = [{"key": i["key"], "where": i["where"], "why": i["msg"]} for i in insts if i["verdict"] == "open"][:40]
    ev = {
        "property_id": rep.prop,
        "tier": rep.tier,
        "seed": rep.seed,
        "level": level,
        "wall_s": round(time.time() - rep.t0, 3),
        "violations": len(violations),
        "assumptions": rep.assumptions,
        "coverage": {
            "explanation": rep.explanation,
            "evaluations": len(insts),
            "distinct_nontrivial": distinct,
            "rule": "one evaluation = one rule instance (a named construct of /repo's current source: match arm, "
                    "table row, call site, MIR path query, abstract IL obligation); distinct = distinct instance keys "
                    "with a definite verdict (ok/bad); undecided instances are not counted as non-trivial",
            "obligations": len(insts) - openc,
            "discharged": okc,
            "undecided": openc,
            "undecided_list": undec,
            "known_findings": [i["key"] for i in known_hits],
            "fixed_findings": fixed,
            "functions_analysed": len(rep.functions),
            "call_sites": rep.call_sites,
            "configs": rep.configs,
            "rules": per_rule,
            "samples": samples[:14],
            "trusted_base": rep.trusted,
            "exhaustive": rep.exhaustive,
            "notes": rep.notes,
        },
    }
    os.makedirs(evdir, exist_ok=True)
    tmp = os.path.join(evdir, ".%s.json.tmp" % rep.prop)
    json.dump(ev, open(tmp, "w"), indent=1, default=str)
    os.replace(tmp, os.path.join(evdir, "%s.json" % rep.prop))
    print(
        "%s tier=%s: %d rule instances (%d ok, %d violation, %d known, %d undecided) over %d functions in %.1fs"
        % (rep.prop, rep.tier, len(insts), okc, len(violations), len(known_hits), openc, len(rep.functions),
           time.time() - rep.t0)
    )
    return 1 if violations else 0
