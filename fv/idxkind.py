"""Shared provenance rule: instruction *indices* (stable identifiers inside a block) and vector
*positions* are both usize and must not be confused.

Sources   index:    Instruction::index(), *::instruction_index(), Block::new_instruction_index()
          position: Iterator::position / enumerate, len()
Sinks     index:    Block::instruction / instruction_mut / remove_instruction
          position: indexing / get / get_mut / remove / insert on Vec<Instruction> or [Instruction]
          fresh:    Instruction::clone_new_index and the Instruction constructors inside impl Block take a
                    value from new_instruction_index()
A definite confusion (index into a position sink, position or index arithmetic into an index sink, a
non-fresh value into a constructor inside impl Block) is a violation; unknown provenance is not.
"""
from armlib import last_seg
from db import mir_callee, mir_calls
from mirterm import calls_in, subterms, terms_of, show

INDEX_SRC = ("il::instruction::Instruction::index", "il::block::Block::new_instruction_index")
INDEX_SINKS = ("il::block::Block::instruction", "il::block::Block::instruction_mut", "il::block::Block::remove_instruction")
FRESH_SINKS = ("il::instruction::Instruction::clone_new_index", "il::instruction::Instruction::assign",
               "il::instruction::Instruction::store", "il::instruction::Instruction::load",
               "il::instruction::Instruction::branch", "il::instruction::Instruction::intrinsic",
               "il::instruction::Instruction::nop", "il::instruction::Instruction::placeholder")


def kinds(t):
    ks = set()
    for c in calls_in(t):
        n = c[1]
        if n in INDEX_SRC or last_seg(n) == "instruction_index":
            ks.add("index")
        if last_seg(n) in ("position", "enumerate", "rposition") and "iter" in n.lower():
            ks.add("position")
        if last_seg(n) == "len":
            ks.add("position")
    for s in subterms(t):
        # payload of the owned location FunctionLocation::Instruction(block_index, instruction_index)
        if s and s[0] == "field" and s[2] == ".1" and s[1][0] == "variant" and s[1][2] == "Instruction":
            ks.add("index")
        if s and s[0] == "bin" and s[1] in ("Add", "Sub", "AddWithOverflow", "SubWithOverflow"):
            if any(c[1] in INDEX_SRC or last_seg(c[1]) == "instruction_index" for c in calls_in(s)):
                ks.add("index-arith")
    return ks


def rule(db, rep, rid="IDX"):
    r = rep.rule(rid, "K9", "instruction indices and vector positions are not confused: Block::instruction/"
                 "instruction_mut/remove_instruction receive an index (never a position, a length or index arithmetic), "
                 "positional access to a Vec<Instruction> never receives an instruction index, and instructions "
                 "created inside impl Block take their index from new_instruction_index()")
    cache = {}
    n = 0
    cands = set(db.mir.mentioning("il::block::Block::instruction")) | set(db.mir.mentioning("il::instruction::Instruction>")) \
        | set(db.mir.mentioning("[il::instruction::Instruction]")) | set(db.mir.mentioning("il::instruction::Instruction::"))
    for d in sorted(cands):
        body = db.mir[d]
        if body["file"].endswith(("test.rs",)) or "/tests/" in body["file"]:
            continue
        tm = None
        k = 0
        for i, t in mir_calls(body):
            c = mir_callee(t) or ""
            f = t.get("f") or ""
            fg = t.get("fg", "")
            sink = None
            arg = None
            if c in INDEX_SINKS and len(t["args"]) >= 2:
                sink, arg = "index", t["args"][1]
            elif c in FRESH_SINKS and d.startswith("il::block::Block::") and t["args"]:
                sink, arg = "fresh", t["args"][1] if c.endswith("clone_new_index") else t["args"][0]
            elif "il::instruction::Instruction" in fg and last_seg(f) in ("index", "index_mut", "get", "get_mut", "remove", "insert") \
                    and ("std::vec::Vec<il::instruction::Instruction>" in fg or "[il::instruction::Instruction]" in fg
                         or "impl [T]" in f or "Vec::<T, A>" in f) and len(t["args"]) >= 2 and "HashMap" not in fg and "BTreeMap" not in fg:
                sink, arg = "position", t["args"][1]
            if sink is None:
                continue
            tm = tm or terms_of(db, d, cache)
            term = tm.operand(arg)
            ks = kinds(term)
            key = "%s|%s|%d" % (d, sink, k)
            k += 1
            n += 1
            rep.analysed(d)
            where = db.where(body, t["l"])
            if sink == "index":
                bad = ks & {"position", "index-arith"}
                r.decide(not bad, key, where, "%s receives %s: %s" % (last_seg(c), sorted(bad), show(term)[:100]))
            elif sink == "position":
                bad = ks & {"index", "index-arith"} and "position" not in ks
                r.decide(not bad, key, where,
                         "positional access to a Vec<Instruction> receives an instruction index: %s" % show(term)[:100])
            else:
                fresh = any(cc[1] == "il::block::Block::new_instruction_index" for cc in calls_in(term))
                r.decide(fresh, key, where, "instruction created in impl Block with an index that does not come from "
                         "new_instruction_index(): %s" % show(term)[:100])
    r.floor(8, "index / position / fresh sinks in the crate")
    return r
