#![feature(rustc_private)]
#![feature(box_patterns)]
// fvdrv: rustc_private driver dumping HIR(+typeck), MIR and item facts of the crate under analysis
// as JSON lines. Used as RUSTC_WORKSPACE_WRAPPER; it compiles the crate exactly as rustc would.

extern crate rustc_abi;
extern crate rustc_ast;
extern crate rustc_driver;
extern crate rustc_hir;
extern crate rustc_interface;
extern crate rustc_middle;
extern crate rustc_span;

mod hirdump;
mod json;
mod mirdump;

use json::J;
use rustc_driver::{Callbacks, Compilation};
use rustc_hir::def::DefKind;
use rustc_interface::interface::Compiler;
use rustc_middle::ty::{self, TyCtxt};
use std::io::Write;

struct Cb;

fn tys<'tcx>(t: ty::Ty<'tcx>) -> String {
    ty::print::with_no_trimmed_paths!(t.to_string())
}

fn dump_items<'tcx>(tcx: TyCtxt<'tcx>, out: &mut String) {
    for id in tcx.hir_free_items() {
        let item = tcx.hir_item(id);
        let did = item.owner_id.to_def_id();
        let dk = tcx.def_kind(did);
        let (file, line) = hirdump::line_of(tcx, item.span);
        let mut o = J::obj();
        o.put("def", J::s(hirdump::dps(tcx, did)));
        o.put("dk", J::s(format!("{:?}", dk)));
        o.put("file", J::s(file));
        o.put("line", J::Int(line as i128));
        match dk {
            DefKind::Struct | DefKind::Enum => {
                o.put("vis", J::s(format!("{:?}", tcx.visibility(did))));
                let adt = tcx.adt_def(did);
                let mut vs = Vec::new();
                for v in adt.variants().iter() {
                    let mut vo = J::obj().with("name", J::s(v.name.to_string()));
                    vo.put("def", J::s(hirdump::dps(tcx, v.def_id)));
                    vo.put("ctor", J::s(format!("{:?}", v.ctor_kind())));
                    let mut fs = Vec::new();
                    for f in v.fields.iter() {
                        let ft = tcx.type_of(f.did).instantiate_identity().skip_norm_wip();
                        fs.push(
                            J::obj()
                                .with("name", J::s(f.name.to_string()))
                                .with("ty", J::s(tys(ft)))
                                .with("vis", J::s(format!("{:?}", f.vis))),
                        );
                    }
                    vo.put("fields", J::Arr(fs));
                    vs.push(vo);
                }
                o.put("variants", J::Arr(vs));
            }
            DefKind::Impl { .. } => {
                let st = tcx.type_of(did).instantiate_identity().skip_norm_wip();
                o.put("self", J::s(tys(st)));
                if let Some(trref) = tcx.impl_opt_trait_ref(did) {
                    let t = trref.instantiate_identity().skip_norm_wip();
                    o.put("trait", J::s(hirdump::dps(tcx, t.def_id)));
                    o.put("trait_ref", J::s(ty::print::with_no_trimmed_paths!(t.to_string())));
                }
                let mut ms = Vec::new();
                for a in tcx.associated_items(did).in_definition_order() {
                    ms.push(J::s(hirdump::dps(tcx, a.def_id)));
                }
                o.put("items", J::Arr(ms));
            }
            DefKind::Trait => {
                let mut ms = Vec::new();
                for a in tcx.associated_items(did).in_definition_order() {
                    ms.push(
                        J::obj()
                            .with("def", J::s(hirdump::dps(tcx, a.def_id)))
                            .with("has_default", J::Bool(a.defaultness(tcx).has_value())),
                    );
                }
                o.put("items", J::Arr(ms));
            }
            DefKind::Const { .. } | DefKind::Static { .. } => {
                o.put("vis", J::s(format!("{:?}", tcx.visibility(did))));
                let t = tcx.type_of(did).instantiate_identity().skip_norm_wip();
                o.put("ty", J::s(tys(t)));
            }
            DefKind::Fn => {
                o.put("vis", J::s(format!("{:?}", tcx.visibility(did))));
            }
            DefKind::Use => {
                if let rustc_hir::ItemKind::Use(path, kind) = &item.kind {
                    o.put("use_kind", J::s(format!("{:?}", kind)));
                    let mut rs = Vec::new();
                    for r in path.res.present_items() {
                        if let rustc_hir::def::Res::Def(_, d) = r {
                            rs.push(J::s(hirdump::dps(tcx, d)));
                        }
                    }
                    o.put("targets", J::Arr(rs));
                    o.put("vis", J::s(format!("{:?}", tcx.visibility(did))));
                }
            }
            _ => {}
        }
        o.write(out);
        out.push('\n');
    }
}

impl Callbacks for Cb {
    fn after_analysis<'tcx>(&mut self, _c: &Compiler, tcx: TyCtxt<'tcx>) -> Compilation {
        let dir = match std::env::var("FV_FACTS_DIR") {
            Ok(d) => d,
            Err(_) => return Compilation::Continue,
        };
        let want = std::env::var("FV_CRATE").unwrap_or_else(|_| "falcon".to_string());
        let cname = tcx.crate_name(rustc_hir::def_id::LOCAL_CRATE).to_string();
        if cname != want {
            return Compilation::Continue;
        }
        // never analyse test harness builds
        if tcx.sess.opts.test {
            return Compilation::Continue;
        }
        let mut hir_out = String::new();
        let mut mir_out = String::new();
        let mut items_out = String::new();
        let mut n_hir = 0usize;
        let mut n_mir = 0usize;
        for ldid in tcx.hir_body_owners() {
            if let Some(j) = hirdump::dump_body(tcx, ldid) {
                j.write(&mut hir_out);
                hir_out.push('\n');
                n_hir += 1;
            }
            if let Some(j) = mirdump::dump_mir(tcx, ldid) {
                j.write(&mut mir_out);
                mir_out.push('\n');
                n_mir += 1;
            }
        }
        dump_items(tcx, &mut items_out);
        let w = |name: &str, s: &str| {
            let p = format!("{}/{}", dir, name);
            let tmp = format!("{}.tmp{}", p, std::process::id());
            let mut f = std::fs::File::create(&tmp).expect("create fact file");
            f.write_all(s.as_bytes()).expect("write fact file");
            drop(f);
            std::fs::rename(&tmp, &p).expect("rename fact file");
        };
        w("hir.jsonl", &hir_out);
        w("mir.jsonl", &mir_out);
        w("items.jsonl", &items_out);
        let meta = J::obj()
            .with("crate", J::s(cname))
            .with("hir_bodies", J::Int(n_hir as i128))
            .with("mir_bodies", J::Int(n_mir as i128))
            .with(
                "tree_hash",
                J::s(std::env::var("FV_TREE_HASH").unwrap_or_default()),
            )
            .with(
                "features",
                J::s(std::env::var("FV_FEATURES").unwrap_or_default()),
            );
        let mut ms = String::new();
        meta.write(&mut ms);
        w("meta.json", &ms);
        Compilation::Continue
    }
}

fn main() {
    let mut args: Vec<String> = std::env::args().collect();
    // as RUSTC_WORKSPACE_WRAPPER cargo passes the real rustc path as argv[1]
    if args.len() > 1 && (args[1].ends_with("rustc") || args[1].ends_with("rustc.exe")) {
        args.remove(1);
    }
    rustc_driver::run_compiler(&args, &mut Cb);
}
