// HIR + typeck dump: one JSON object per body owner (closures inlined into their parent).
use crate::json::J;
use rustc_hir as hir;
use rustc_hir::def::{DefKind, Res};
use rustc_hir::def_id::{DefId, LocalDefId};
use rustc_middle::ty::{self, TyCtxt, TypeckResults};
use rustc_span::Span;
use std::collections::HashMap;

pub fn dps(tcx: TyCtxt<'_>, did: DefId) -> String {
    ty::print::with_no_trimmed_paths!(tcx.def_path_str(did))
}

pub fn line_of(tcx: TyCtxt<'_>, span: Span) -> (String, usize) {
    let sm = tcx.sess.source_map();
    // use the outermost call site for macro-expanded code so that lines refer to /repo sources
    let sp = span.source_callsite();
    let loc = sm.lookup_char_pos(sp.lo());
    let name = match &loc.file.name {
        rustc_span::FileName::Real(r) => match r.local_path() {
            Some(p) => p.to_string_lossy().into_owned(),
            None => format!("{:?}", loc.file.name),
        },
        other => format!("{:?}", other),
    };
    (name, loc.line)
}

pub struct Ctx<'a, 'tcx> {
    pub tcx: TyCtxt<'tcx>,
    pub tr: &'tcx TypeckResults<'tcx>,
    pub types: Vec<String>,
    pub type_ix: HashMap<String, usize>,
    pub _p: std::marker::PhantomData<&'a ()>,
}

impl<'a, 'tcx> Ctx<'a, 'tcx> {
    fn ty_ix(&mut self, t: ty::Ty<'tcx>) -> J {
        let s = ty::print::with_no_trimmed_paths!(t.to_string());
        if let Some(i) = self.type_ix.get(&s) {
            return J::Int(*i as i128);
        }
        let i = self.types.len();
        self.types.push(s.clone());
        self.type_ix.insert(s, i);
        J::Int(i as i128)
    }

    fn line(&self, span: Span) -> J {
        J::Int(line_of(self.tcx, span).1 as i128)
    }

    fn macro_of(&self, span: Span) -> Option<String> {
        if span.from_expansion() {
            let d = span.ctxt().outer_expn_data();
            Some(format!("{}", d.kind.descr()))
        } else {
            None
        }
    }

    fn res(&mut self, res: Res, _hid: hir::HirId) -> J {
        match res {
            Res::Local(h) => {
                let name = self.tcx.hir_name(h).to_string();
                J::obj()
                    .with("local", J::s(name))
                    .with("hid", J::Int(h.local_id.as_u32() as i128))
            }
            Res::Def(dk, did) => {
                let mut o = J::obj()
                    .with("def", J::s(dps(self.tcx, did)))
                    .with("dk", J::s(format!("{:?}", dk)));
                // constructors: report the variant / struct they construct
                if let DefKind::Ctor(..) = dk {
                    let parent = self.tcx.parent(did);
                    o.put("ctor_of", J::s(dps(self.tcx, parent)));
                }
                o
            }
            Res::SelfCtor(did) => J::obj().with("selfctor", J::s(dps(self.tcx, did))),
            Res::SelfTyAlias { alias_to, .. } => {
                J::obj().with("selfty", J::s(dps(self.tcx, alias_to)))
            }
            Res::PrimTy(p) => J::obj().with("prim", J::s(format!("{:?}", p))),
            other => J::obj().with("other", J::s(format!("{:?}", other))),
        }
    }

    fn qpath(&mut self, qp: &hir::QPath<'tcx>, hid: hir::HirId) -> J {
        let res = self.tr.qpath_res(qp, hid);
        let mut o = self.res(res, hid);
        // written form of the last segment, only for messages
        let seg = match qp {
            hir::QPath::Resolved(_, p) => p.segments.last().map(|s| s.ident.to_string()),
            hir::QPath::TypeRelative(_, s) => Some(s.ident.to_string()),
        };
        if let Some(s) = seg {
            o.put("seg", J::s(s));
        }
        o
    }

    fn lit(&mut self, lit: &hir::Lit, negated: bool) -> J {
        use rustc_ast::LitKind;
        let mut o = J::obj();
        match &lit.node {
            LitKind::Int(v, _) => {
                let v = v.get() as i128;
                o.put("int", J::Int(if negated { -v } else { v }));
            }
            LitKind::Bool(b) => {
                o.put("bool", J::Bool(*b));
            }
            LitKind::Str(s, _) => {
                o.put("str", J::s(s.as_str().to_string()));
            }
            LitKind::Char(c) => {
                o.put("char", J::s(c.to_string()));
            }
            LitKind::Byte(b) => {
                o.put("int", J::Int(*b as i128));
            }
            other => {
                o.put("lit_other", J::s(format!("{:?}", other)));
            }
        }
        o
    }

    pub fn pat(&mut self, p: &'tcx hir::Pat<'tcx>) -> J {
        use hir::PatKind::*;
        let mut o = J::obj();
        match &p.kind {
            Missing => {
                o.put("k", J::s("Missing"));
            }
            Wild => {
                o.put("k", J::s("Wild"));
            }
            Never => {
                o.put("k", J::s("Never"));
            }
            Binding(mode, hid, ident, sub) => {
                o.put("k", J::s("Bind"));
                o.put("name", J::s(ident.to_string()));
                o.put("hid", J::Int(hid.local_id.as_u32() as i128));
                o.put("mode", J::s(format!("{:?}", mode)));
                let t = self.tr.node_type(p.hir_id);
                let ti = self.ty_ix(t);
                o.put("t", ti);
                if let Some(s) = sub {
                    let sp = self.pat(s);
                    o.put("sub", sp);
                }
            }
            Struct(qp, fields, rest) => {
                o.put("k", J::s("Struct"));
                let q = self.qpath(qp, p.hir_id);
                o.put("path", q);
                let fs = fields
                    .iter()
                    .map(|f| {
                        let fp = self.pat(f.pat);
                        J::obj().with("n", J::s(f.ident.to_string())).with("p", fp)
                    })
                    .collect();
                o.put("fields", J::Arr(fs));
                o.put("rest", J::Bool(rest.is_some()));
            }
            TupleStruct(qp, ps, ddpos) => {
                o.put("k", J::s("TupleStruct"));
                let q = self.qpath(qp, p.hir_id);
                o.put("path", q);
                let v = ps.iter().map(|x| self.pat(x)).collect();
                o.put("ps", J::Arr(v));
                o.put(
                    "ddpos",
                    match ddpos.as_opt_usize() {
                        Some(n) => J::Int(n as i128),
                        None => J::Null,
                    },
                );
            }
            Or(ps) => {
                o.put("k", J::s("Or"));
                let v = ps.iter().map(|x| self.pat(x)).collect();
                o.put("ps", J::Arr(v));
            }
            Tuple(ps, ddpos) => {
                o.put("k", J::s("Tuple"));
                let v = ps.iter().map(|x| self.pat(x)).collect();
                o.put("ps", J::Arr(v));
                o.put(
                    "ddpos",
                    match ddpos.as_opt_usize() {
                        Some(n) => J::Int(n as i128),
                        None => J::Null,
                    },
                );
            }
            Box(x) => {
                o.put("k", J::s("Box"));
                let v = self.pat(x);
                o.put("p", v);
            }
            Deref(x) => {
                o.put("k", J::s("Deref"));
                let v = self.pat(x);
                o.put("p", v);
            }
            Ref(x, _, m) => {
                o.put("k", J::s("Ref"));
                o.put("mut", J::Bool(m.is_mut()));
                let v = self.pat(x);
                o.put("p", v);
            }
            Expr(pe) => {
                let v = self.patexpr(pe);
                return v;
            }
            Guard(x, e) => {
                o.put("k", J::s("Guard"));
                let v = self.pat(x);
                o.put("p", v);
                let g = self.expr(e);
                o.put("g", g);
            }
            Range(lo, hi, end) => {
                o.put("k", J::s("Range"));
                let l = lo.map(|x| self.patexpr(x));
                o.put("lo", J::opt(l));
                let h = hi.map(|x| self.patexpr(x));
                o.put("hi", J::opt(h));
                o.put("end", J::s(format!("{:?}", end)));
            }
            Slice(a, m, b) => {
                o.put("k", J::s("Slice"));
                let va = a.iter().map(|x| self.pat(x)).collect();
                o.put("before", J::Arr(va));
                let vm = m.map(|x| self.pat(x));
                o.put("mid", J::opt(vm));
                let vb = b.iter().map(|x| self.pat(x)).collect();
                o.put("after", J::Arr(vb));
            }
            Err(_) => {
                o.put("k", J::s("Err"));
            }
        }
        o
    }

    fn patexpr(&mut self, pe: &'tcx hir::PatExpr<'tcx>) -> J {
        match &pe.kind {
            hir::PatExprKind::Lit { lit, negated } => {
                let l = self.lit(lit, *negated);
                J::obj().with("k", J::s("Lit")).with("v", l)
            }
            hir::PatExprKind::Path(qp) => {
                let q = self.qpath(qp, pe.hir_id);
                J::obj().with("k", J::s("Path")).with("path", q)
            }
        }
    }

    fn block(&mut self, b: &'tcx hir::Block<'tcx>) -> J {
        let mut stmts = Vec::new();
        for s in b.stmts {
            match &s.kind {
                hir::StmtKind::Let(l) => {
                    let mut o = J::obj().with("k", J::s("Let"));
                    o.put("l", self.line(s.span));
                    let p = self.pat(l.pat);
                    o.put("pat", p);
                    if let Some(i) = l.init {
                        let e = self.expr(i);
                        o.put("init", e);
                    }
                    if let Some(e) = l.els {
                        let eb = self.block(e);
                        o.put("els", eb);
                    }
                    o.put("src", J::s(format!("{:?}", l.source)));
                    stmts.push(o);
                }
                hir::StmtKind::Item(_) => {}
                hir::StmtKind::Expr(e) | hir::StmtKind::Semi(e) => {
                    let v = self.expr(e);
                    stmts.push(J::obj().with("k", J::s("Expr")).with("e", v));
                }
            }
        }
        let mut o = J::obj().with("k", J::s("Block"));
        o.put("l", self.line(b.span));
        o.put("stmts", J::Arr(stmts));
        if let Some(e) = b.expr {
            let v = self.expr(e);
            o.put("expr", v);
        }
        o
    }

    pub fn expr(&mut self, e: &'tcx hir::Expr<'tcx>) -> J {
        use hir::ExprKind::*;
        // transparent wrappers
        match &e.kind {
            DropTemps(inner) | Use(inner, _) | Type(inner, _) => return self.expr(inner),
            _ => {}
        }
        let mut o = J::obj();
        o.put("id", J::Int(e.hir_id.local_id.as_u32() as i128));
        o.put("l", self.line(e.span));
        if let Some(t) = self.tr.expr_ty_opt(e) {
            let ti = self.ty_ix(t);
            o.put("t", ti);
        }
        if let Some(m) = self.macro_of(e.span) {
            o.put("mac", J::s(m));
        }
        // autoderef/autoref adjustments: only record overloaded deref + final type if adjusted
        let adj = self.tr.expr_adjustments(e);
        if !adj.is_empty() {
            if let Some(last) = adj.last() {
                let ti = self.ty_ix(last.target);
                o.put("ta", ti);
            }
        }
        match &e.kind {
            ConstBlock(_) => {
                o.put("k", J::s("ConstBlock"));
            }
            Array(es) | Tup(es) => {
                o.put(
                    "k",
                    J::s(if matches!(e.kind, Array(_)) {
                        "Array"
                    } else {
                        "Tup"
                    }),
                );
                let v = es.iter().map(|x| self.expr(x)).collect();
                o.put("es", J::Arr(v));
            }
            Call(f, args) => {
                o.put("k", J::s("Call"));
                if let Path(qp) = &f.kind {
                    let q = self.qpath(qp, f.hir_id);
                    o.put("fn", q);
                    let ga = self.tr.node_args(f.hir_id);
                    if !ga.is_empty() {
                        o.put(
                            "ga",
                            J::s(ty::print::with_no_trimmed_paths!(format!("{:?}", ga))),
                        );
                    }
                } else {
                    let fe = self.expr(f);
                    o.put("fe", fe);
                }
                let v = args.iter().map(|x| self.expr(x)).collect();
                o.put("args", J::Arr(v));
            }
            MethodCall(seg, recv, args, _) => {
                o.put("k", J::s("MethodCall"));
                o.put("name", J::s(seg.ident.to_string()));
                if let Some(did) = self.tr.type_dependent_def_id(e.hir_id) {
                    o.put("m", J::s(dps(self.tcx, did)));
                    // the trait (if any) the method belongs to and the impl self type
                    if let Some(tr) = self.tcx.trait_of_assoc(did) {
                        o.put("trait", J::s(dps(self.tcx, tr)));
                    }
                }
                let ga = self.tr.node_args(e.hir_id);
                if !ga.is_empty() {
                    o.put(
                        "ga",
                        J::s(ty::print::with_no_trimmed_paths!(format!("{:?}", ga))),
                    );
                }
                let r = self.expr(recv);
                o.put("recv", r);
                let v = args.iter().map(|x| self.expr(x)).collect();
                o.put("args", J::Arr(v));
            }
            Binary(op, a, b) => {
                o.put("k", J::s("Binary"));
                o.put("op", J::s(format!("{:?}", op.node)));
                if let Some(did) = self.tr.type_dependent_def_id(e.hir_id) {
                    o.put("m", J::s(dps(self.tcx, did)));
                }
                let va = self.expr(a);
                let vb = self.expr(b);
                o.put("a", va);
                o.put("b", vb);
            }
            Unary(op, a) => {
                o.put("k", J::s("Unary"));
                o.put("op", J::s(format!("{:?}", op)));
                if let Some(did) = self.tr.type_dependent_def_id(e.hir_id) {
                    o.put("m", J::s(dps(self.tcx, did)));
                }
                let va = self.expr(a);
                o.put("e", va);
            }
            Lit(l) => {
                o.put("k", J::s("Lit"));
                let v = self.lit(l, false);
                o.put("v", v);
            }
            Cast(a, _) => {
                o.put("k", J::s("Cast"));
                let va = self.expr(a);
                o.put("e", va);
            }
            Let(l) => {
                o.put("k", J::s("LetExpr"));
                let p = self.pat(l.pat);
                o.put("pat", p);
                let i = self.expr(l.init);
                o.put("init", i);
            }
            If(c, t, el) => {
                o.put("k", J::s("If"));
                let vc = self.expr(c);
                o.put("c", vc);
                let vt = self.expr(t);
                o.put("then", vt);
                if let Some(x) = el {
                    let ve = self.expr(x);
                    o.put("else", ve);
                }
            }
            Loop(b, _, src, _) => {
                o.put("k", J::s("Loop"));
                o.put("src", J::s(format!("{:?}", src)));
                let vb = self.block(b);
                o.put("body", vb);
            }
            Match(s, arms, src) => {
                o.put("k", J::s("Match"));
                o.put(
                    "src",
                    J::s(match src {
                        hir::MatchSource::Normal => "Normal".to_string(),
                        hir::MatchSource::TryDesugar(_) => "Try".to_string(),
                        hir::MatchSource::ForLoopDesugar => "For".to_string(),
                        other => format!("{:?}", other),
                    }),
                );
                let vs = self.expr(s);
                o.put("scrut", vs);
                let mut va = Vec::new();
                for a in arms.iter() {
                    let mut ao = J::obj();
                    ao.put("l", self.line(a.span));
                    let p = self.pat(a.pat);
                    ao.put("pat", p);
                    if let Some(g) = a.guard {
                        let vg = self.expr(g);
                        ao.put("guard", vg);
                    }
                    let b = self.expr(a.body);
                    ao.put("body", b);
                    va.push(ao);
                }
                o.put("arms", J::Arr(va));
            }
            Closure(c) => {
                o.put("k", J::s("Closure"));
                o.put("def", J::s(dps(self.tcx, c.def_id.to_def_id())));
                let body = self.tcx.hir_body(c.body);
                let ps = body.params.iter().map(|p| self.pat(p.pat)).collect();
                o.put("params", J::Arr(ps));
                let b = self.expr(body.value);
                o.put("body", b);
            }
            Block(b, _) => {
                let vb = self.block(b);
                if let J::Obj(items) = vb {
                    for (k, v) in items {
                        if k != "l" {
                            o.put(k, v);
                        }
                    }
                }
            }
            Assign(a, b, _) => {
                o.put("k", J::s("Assign"));
                let va = self.expr(a);
                let vb = self.expr(b);
                o.put("lhs", va);
                o.put("rhs", vb);
            }
            AssignOp(op, a, b) => {
                o.put("k", J::s("AssignOp"));
                o.put("op", J::s(format!("{:?}", op.node)));
                if let Some(did) = self.tr.type_dependent_def_id(e.hir_id) {
                    o.put("m", J::s(dps(self.tcx, did)));
                }
                let va = self.expr(a);
                let vb = self.expr(b);
                o.put("lhs", va);
                o.put("rhs", vb);
            }
            Field(a, ident) => {
                o.put("k", J::s("Field"));
                o.put("name", J::s(ident.to_string()));
                let va = self.expr(a);
                o.put("e", va);
            }
            Index(a, i, _) => {
                o.put("k", J::s("Index"));
                if let Some(did) = self.tr.type_dependent_def_id(e.hir_id) {
                    o.put("m", J::s(dps(self.tcx, did)));
                }
                let va = self.expr(a);
                let vi = self.expr(i);
                o.put("e", va);
                o.put("i", vi);
            }
            Path(qp) => {
                o.put("k", J::s("Path"));
                let q = self.qpath(qp, e.hir_id);
                o.put("res", q);
            }
            AddrOf(_, m, a) => {
                o.put("k", J::s("AddrOf"));
                o.put("mut", J::Bool(m.is_mut()));
                let va = self.expr(a);
                o.put("e", va);
            }
            Break(_, x) => {
                o.put("k", J::s("Break"));
                if let Some(x) = x {
                    let v = self.expr(x);
                    o.put("e", v);
                }
            }
            Continue(_) => {
                o.put("k", J::s("Continue"));
            }
            Ret(x) => {
                o.put("k", J::s("Ret"));
                if let Some(x) = x {
                    let v = self.expr(x);
                    o.put("e", v);
                }
            }
            Struct(qp, fields, tail) => {
                o.put("k", J::s("Struct"));
                let q = self.qpath(qp, e.hir_id);
                o.put("path", q);
                let mut fs = Vec::new();
                for f in fields.iter() {
                    let v = self.expr(f.expr);
                    fs.push(J::obj().with("n", J::s(f.ident.to_string())).with("e", v));
                }
                o.put("fields", J::Arr(fs));
                if let hir::StructTailExpr::Base(b) = tail {
                    let v = self.expr(b);
                    o.put("base", v);
                }
            }
            Repeat(a, _) => {
                o.put("k", J::s("Repeat"));
                let va = self.expr(a);
                o.put("e", va);
            }
            other => {
                o.put("k", J::s("Other"));
                o.put("dbg", J::s(format!("{:?}", std::mem::discriminant(other))));
            }
        }
        o
    }
}

pub fn dump_body<'tcx>(tcx: TyCtxt<'tcx>, ldid: LocalDefId) -> Option<J> {
    let dk = tcx.def_kind(ldid);
    match dk {
        DefKind::Fn | DefKind::AssocFn | DefKind::Const { .. } | DefKind::Static { .. } | DefKind::AssocConst { .. } => {}
        _ => return None,
    }
    let body = tcx.hir_body_owned_by(ldid);
    let tr = tcx.typeck(ldid);
    let mut cx = Ctx {
        tcx,
        tr,
        types: Vec::new(),
        type_ix: HashMap::new(),
        _p: std::marker::PhantomData,
    };
    let did = ldid.to_def_id();
    let (file, line) = line_of(tcx, tcx.def_span(did));
    let mut o = J::obj();
    o.put("def", J::s(dps(tcx, did)));
    o.put("dk", J::s(format!("{:?}", dk)));
    o.put("file", J::s(file));
    o.put("line", J::Int(line as i128));
    if matches!(dk, DefKind::Fn | DefKind::AssocFn) {
        o.put("vis", J::s(format!("{:?}", tcx.visibility(did))));
        let sig = tcx.fn_sig(did).instantiate_identity().skip_norm_wip().skip_binder();
        let ins: Vec<J> = sig
            .inputs()
            .iter()
            .map(|t| J::s(ty::print::with_no_trimmed_paths!(t.to_string())))
            .collect();
        o.put("inputs", J::Arr(ins));
        o.put(
            "output",
            J::s(ty::print::with_no_trimmed_paths!(sig.output().to_string())),
        );
    }
    if let Some(imp) = tcx.impl_of_assoc(did) {
        let st = tcx.type_of(imp).instantiate_identity().skip_norm_wip();
        o.put(
            "impl_self",
            J::s(ty::print::with_no_trimmed_paths!(st.to_string())),
        );
        if let Some(trref) = tcx.impl_opt_trait_ref(imp) {
            let t = trref.instantiate_identity().skip_norm_wip();
            o.put("impl_trait", J::s(dps(tcx, t.def_id)));
        }
    }
    if let Some(tr_) = tcx.trait_of_assoc(did) {
        o.put("in_trait", J::s(dps(tcx, tr_)));
    }
    let ps: Vec<J> = body.params.iter().map(|p| cx.pat(p.pat)).collect();
    o.put("params", J::Arr(ps));
    let b = cx.expr(body.value);
    o.put("body", b);
    o.put("types", J::Arr(cx.types.into_iter().map(J::Str).collect()));
    Some(o)
}
