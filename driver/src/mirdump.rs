// MIR dump (optimized_mir at -Zmir-opt-level=0): one JSON object per body incl. closures.
use crate::hirdump::{dps, line_of};
use crate::json::J;
use rustc_hir::def::DefKind;
use rustc_hir::def_id::{DefId, LocalDefId};
use rustc_middle::mir::{self, *};
use rustc_middle::ty::{self, Instance, TyCtxt, TypingEnv};
use std::collections::HashMap;

struct M<'tcx> {
    tcx: TyCtxt<'tcx>,
    did: DefId,
    env: TypingEnv<'tcx>,
    generic: bool,
    types: Vec<String>,
    type_ix: HashMap<String, usize>,
}

fn tys<'tcx>(t: ty::Ty<'tcx>) -> String {
    ty::print::with_no_trimmed_paths!(t.to_string())
}

impl<'tcx> M<'tcx> {
    fn ty_ix(&mut self, t: ty::Ty<'tcx>) -> J {
        let s = tys(t);
        if let Some(i) = self.type_ix.get(&s) {
            return J::Int(*i as i128);
        }
        let i = self.types.len();
        self.types.push(s.clone());
        self.type_ix.insert(s, i);
        J::Int(i as i128)
    }

    fn place(&mut self, p: &Place<'tcx>) -> J {
        let mut v = vec![J::Int(p.local.as_u32() as i128)];
        for e in p.projection.iter() {
            let s = match e {
                ProjectionElem::Deref => "*".to_string(),
                ProjectionElem::Field(f, _) => format!(".{}", f.as_u32()),
                ProjectionElem::Index(l) => format!("[_{}]", l.as_u32()),
                ProjectionElem::ConstantIndex { offset, from_end, .. } => {
                    format!("[c{}{}]", if from_end { "-" } else { "" }, offset)
                }
                ProjectionElem::Subslice { from, to, .. } => format!("[{}..{}]", from, to),
                ProjectionElem::Downcast(name, idx) => format!(
                    "@{}:{}",
                    idx.as_u32(),
                    name.map(|n| n.to_string()).unwrap_or_default()
                ),
                ProjectionElem::OpaqueCast(_) => "opaque".to_string(),
                ProjectionElem::UnwrapUnsafeBinder(_) => "unbind".to_string(),
            };
            v.push(J::Str(s));
        }
        J::Arr(v)
    }

    fn constant(&mut self, c: &ConstOperand<'tcx>) -> J {
        let mut o = J::obj();
        let t = c.const_.ty();
        let ti = self.ty_ix(t);
        o.put("ty", ti);
        if let ty::FnDef(fdid, ga) = t.kind() {
            o.put("fn", J::s(dps(self.tcx, *fdid)));
            if let Ok(Some(inst)) = Instance::try_resolve(self.tcx, self.env, *fdid, ga) {
                let rd = inst.def_id();
                if rd != *fdid {
                    o.put("r", J::s(dps(self.tcx, rd)));
                }
            }
            if !ga.is_empty() {
                o.put(
                    "ga",
                    J::s(ty::print::with_no_trimmed_paths!(format!("{:?}", ga))),
                );
            }
            return o;
        }
        match c.const_ {
            mir::Const::Unevaluated(uv, _) => {
                o.put("uneval", J::s(dps(self.tcx, uv.def)));
                if !self.generic && uv.args.is_empty() {
                    if let Some(si) = c.const_.try_eval_scalar_int(self.tcx, self.env) {
                        o.put("int", J::Int(si.to_bits_unchecked() as i128));
                        o.put("size", J::Int(si.size().bytes() as i128));
                    }
                }
            }
            _ => {
                if let Some(si) = c.const_.try_to_scalar_int() {
                    o.put("int", J::Int(si.to_bits_unchecked() as i128));
                    o.put("size", J::Int(si.size().bytes() as i128));
                } else {
                    let s = ty::print::with_no_trimmed_paths!(format!("{}", c.const_));
                    let s = if s.len() > 200 { s[..200].to_string() } else { s };
                    o.put("v", J::s(s));
                }
            }
        }
        o
    }

    fn operand(&mut self, op: &Operand<'tcx>) -> J {
        match op {
            Operand::Copy(p) => J::obj().with("c", self.place(p)),
            Operand::Move(p) => J::obj().with("m", self.place(p)),
            Operand::Constant(c) => J::obj().with("k", self.constant(c)),
            #[allow(unreachable_patterns)]
            _ => J::obj().with("other", J::Bool(true)),
        }
    }

    fn rvalue(&mut self, rv: &Rvalue<'tcx>) -> J {
        let mut o = J::obj();
        match rv {
            Rvalue::Use(op, _) => {
                o.put("k", J::s("Use"));
                let v = self.operand(op);
                o.put("op", v);
            }
            Rvalue::Repeat(op, _) => {
                o.put("k", J::s("Repeat"));
                let v = self.operand(op);
                o.put("op", v);
            }
            Rvalue::Ref(_, bk, p) => {
                o.put("k", J::s("Ref"));
                o.put(
                    "mut",
                    J::Bool(matches!(bk, BorrowKind::Mut { .. })),
                );
                let v = self.place(p);
                o.put("p", v);
            }
            Rvalue::RawPtr(kind, p) => {
                o.put("k", J::s("RawPtr"));
                o.put("mut", J::Bool(matches!(kind, RawPtrKind::Mut)));
                let v = self.place(p);
                o.put("p", v);
            }
            Rvalue::Cast(kind, op, t) => {
                o.put("k", J::s("Cast"));
                o.put("ck", J::s(format!("{:?}", kind)));
                let v = self.operand(op);
                o.put("op", v);
                let ti = self.ty_ix(*t);
                o.put("ty", ti);
            }
            Rvalue::BinaryOp(op, box (a, b)) => {
                o.put("k", J::s("BinaryOp"));
                o.put("op", J::s(format!("{:?}", op)));
                let va = self.operand(a);
                let vb = self.operand(b);
                o.put("a", va);
                o.put("b", vb);
            }
            Rvalue::UnaryOp(op, a) => {
                o.put("k", J::s("UnaryOp"));
                o.put("op", J::s(format!("{:?}", op)));
                let va = self.operand(a);
                o.put("a", va);
            }
            Rvalue::Discriminant(p) => {
                o.put("k", J::s("Discriminant"));
                let v = self.place(p);
                o.put("p", v);
            }
            Rvalue::Aggregate(box kind, ops) => {
                o.put("k", J::s("Aggregate"));
                match kind {
                    AggregateKind::Adt(adt, vidx, _, _, _) => {
                        let def = self.tcx.adt_def(*adt);
                        let var = def.variant(*vidx);
                        o.put("adt", J::s(dps(self.tcx, *adt)));
                        o.put("variant", J::s(dps(self.tcx, var.def_id)));
                        o.put("vidx", J::Int(vidx.as_u32() as i128));
                    }
                    AggregateKind::Closure(cd, _) => {
                        o.put("closure", J::s(dps(self.tcx, *cd)));
                    }
                    AggregateKind::Tuple => {
                        o.put("tuple", J::Bool(true));
                    }
                    AggregateKind::Array(_) => {
                        o.put("array", J::Bool(true));
                    }
                    other => {
                        o.put("agg_other", J::s(format!("{:?}", other)));
                    }
                }
                let v = ops.iter().map(|x| self.operand(x)).collect();
                o.put("ops", J::Arr(v));
            }
            Rvalue::CopyForDeref(p) => {
                o.put("k", J::s("CopyForDeref"));
                let v = self.place(p);
                o.put("p", v);
            }
            Rvalue::ThreadLocalRef(d) => {
                o.put("k", J::s("ThreadLocalRef"));
                o.put("def", J::s(dps(self.tcx, *d)));
            }
            other => {
                o.put("k", J::s("Other"));
                o.put("dbg", J::s(format!("{:?}", other)));
            }
        }
        o
    }

    fn span(&self, si: &SourceInfo) -> (J, Option<String>) {
        let (_, line) = line_of(self.tcx, si.span);
        let mac = if si.span.from_expansion() {
            let d = si.span.ctxt().outer_expn_data();
            Some(d.kind.descr().to_string())
        } else {
            None
        };
        (J::Int(line as i128), mac)
    }
}

pub fn dump_mir<'tcx>(tcx: TyCtxt<'tcx>, ldid: LocalDefId) -> Option<J> {
    let dk = tcx.def_kind(ldid);
    match dk {
        DefKind::Fn | DefKind::AssocFn | DefKind::Closure => {}
        _ => return None,
    }
    let did = ldid.to_def_id();
    let body = tcx.optimized_mir(did);
    let generic = tcx.generics_of(did).requires_monomorphization(tcx);
    let mut m = M {
        tcx,
        did,
        env: TypingEnv::post_analysis(tcx, did),
        generic,
        types: Vec::new(),
        type_ix: HashMap::new(),
    };
    let (file, line) = line_of(tcx, tcx.def_span(did));
    let mut o = J::obj();
    o.put("def", J::s(dps(tcx, did)));
    o.put("dk", J::s(format!("{:?}", dk)));
    o.put("file", J::s(file));
    o.put("line", J::Int(line as i128));
    o.put("argc", J::Int(body.arg_count as i128));
    if dk == DefKind::Closure {
        o.put("parent", J::s(dps(tcx, tcx.typeck_root_def_id(did))));
    } else {
        o.put("vis", J::s(format!("{:?}", tcx.visibility(did))));
    }
    // locals
    let mut locals = Vec::new();
    for (_l, d) in body.local_decls.iter_enumerated() {
        locals.push(m.ty_ix(d.ty));
    }
    o.put("locals", J::Arr(locals));
    let mut names = Vec::new();
    for vdi in body.var_debug_info.iter() {
        if let VarDebugInfoContents::Place(p) = &vdi.value {
            names.push(J::Arr(vec![J::s(vdi.name.to_string()), m.place(p)]));
        }
    }
    o.put("names", J::Arr(names));
    let mut blocks = Vec::new();
    for (_bb, data) in body.basic_blocks.iter_enumerated() {
        let mut b = J::obj();
        if data.is_cleanup {
            b.put("cleanup", J::Bool(true));
        }
        let mut stmts = Vec::new();
        for st in data.statements.iter() {
            match &st.kind {
                StatementKind::Assign(box (place, rv)) => {
                    let (l, mac) = m.span(&st.source_info);
                    let mut s = J::obj().with("l", l);
                    if let Some(mc) = mac {
                        s.put("mac", J::s(mc));
                    }
                    let d = m.place(place);
                    s.put("d", d);
                    let r = m.rvalue(rv);
                    s.put("rv", r);
                    stmts.push(s);
                }
                StatementKind::SetDiscriminant { place, variant_index } => {
                    let (l, _) = m.span(&st.source_info);
                    let d = m.place(place);
                    stmts.push(
                        J::obj()
                            .with("l", l)
                            .with("d", d)
                            .with("setdisc", J::Int(variant_index.as_u32() as i128)),
                    );
                }
                _ => {}
            }
        }
        b.put("s", J::Arr(stmts));
        let term = data.terminator();
        let (l, mac) = m.span(&term.source_info);
        let mut t = J::obj().with("l", l);
        if let Some(mc) = mac {
            t.put("mac", J::s(mc));
        }
        match &term.kind {
            TerminatorKind::Goto { target } => {
                t.put("k", J::s("Goto"));
                t.put("t", J::Int(target.as_u32() as i128));
            }
            TerminatorKind::SwitchInt { discr, targets } => {
                t.put("k", J::s("SwitchInt"));
                let d = m.operand(discr);
                t.put("discr", d);
                let mut tv = Vec::new();
                for (val, bb) in targets.iter() {
                    tv.push(J::Arr(vec![J::Int(val as i128), J::Int(bb.as_u32() as i128)]));
                }
                t.put("targets", J::Arr(tv));
                t.put("otherwise", J::Int(targets.otherwise().as_u32() as i128));
            }
            TerminatorKind::Return => {
                t.put("k", J::s("Return"));
            }
            TerminatorKind::Unreachable => {
                t.put("k", J::s("Unreachable"));
            }
            TerminatorKind::UnwindResume => {
                t.put("k", J::s("Resume"));
            }
            TerminatorKind::UnwindTerminate(_) => {
                t.put("k", J::s("Terminate"));
            }
            TerminatorKind::Drop { place, target, unwind, .. } => {
                t.put("k", J::s("Drop"));
                let p = m.place(place);
                t.put("p", p);
                t.put("t", J::Int(target.as_u32() as i128));
                if let UnwindAction::Cleanup(c) = unwind {
                    t.put("u", J::Int(c.as_u32() as i128));
                }
            }
            TerminatorKind::Call { func, args, destination, target, unwind, .. } => {
                t.put("k", J::s("Call"));
                if let Some((cdid, gargs)) = func.const_fn_def() {
                    t.put("f", J::s(dps(tcx, cdid)));
                    let full = ty::print::with_no_trimmed_paths!(
                        tcx.def_path_str_with_args(cdid, gargs)
                    );
                    t.put("fg", J::s(full));
                    if let Some(tr_) = tcx.trait_of_assoc(cdid) {
                        t.put("trait", J::s(dps(tcx, tr_)));
                    }
                    // resolve trait method calls to the impl where possible
                    if !m.generic || true {
                        if let Ok(Some(inst)) = Instance::try_resolve(tcx, m.env, cdid, gargs) {
                            let rd = inst.def_id();
                            if rd != cdid {
                                t.put("r", J::s(dps(tcx, rd)));
                            }
                            if let ty::InstanceKind::Virtual(..) = inst.def {
                                t.put("virtual", J::Bool(true));
                            }
                        }
                    }
                } else {
                    let f = m.operand(func);
                    t.put("fop", f);
                }
                let av = args.iter().map(|a| m.operand(&a.node)).collect();
                t.put("args", J::Arr(av));
                let d = m.place(destination);
                t.put("d", d);
                if let Some(tg) = target {
                    t.put("t", J::Int(tg.as_u32() as i128));
                }
                if let UnwindAction::Cleanup(c) = unwind {
                    t.put("u", J::Int(c.as_u32() as i128));
                }
            }
            TerminatorKind::Assert { cond, expected, msg, target, unwind } => {
                t.put("k", J::s("Assert"));
                let c = m.operand(cond);
                t.put("cond", c);
                t.put("expected", J::Bool(*expected));
                let (ak, detail) = match &**msg {
                    AssertKind::BoundsCheck { len, index } => {
                        let l = m.operand(len);
                        let i = m.operand(index);
                        ("Bounds", J::obj().with("len", l).with("index", i))
                    }
                    AssertKind::Overflow(op, a, b) => {
                        let va = m.operand(a);
                        let vb = m.operand(b);
                        (
                            "Overflow",
                            J::obj()
                                .with("op", J::s(format!("{:?}", op)))
                                .with("a", va)
                                .with("b", vb),
                        )
                    }
                    AssertKind::OverflowNeg(_) => ("OverflowNeg", J::Null),
                    AssertKind::DivisionByZero(_) => ("DivZero", J::Null),
                    AssertKind::RemainderByZero(_) => ("RemZero", J::Null),
                    _ => ("Other", J::Null),
                };
                t.put("ak", J::s(ak));
                t.put("detail", detail);
                t.put("t", J::Int(target.as_u32() as i128));
                if let UnwindAction::Cleanup(c) = unwind {
                    t.put("u", J::Int(c.as_u32() as i128));
                }
            }
            TerminatorKind::FalseEdge { real_target, .. } => {
                t.put("k", J::s("Goto"));
                t.put("t", J::Int(real_target.as_u32() as i128));
            }
            TerminatorKind::FalseUnwind { real_target, .. } => {
                t.put("k", J::s("Goto"));
                t.put("t", J::Int(real_target.as_u32() as i128));
            }
            other => {
                t.put("k", J::s("Other"));
                t.put("dbg", J::s(format!("{:?}", std::mem::discriminant(other))));
            }
        }
        b.put("t", t);
        blocks.push(b);
    }
    o.put("blocks", J::Arr(blocks));
    o.put("types", J::Arr(m.types.into_iter().map(J::Str).collect()));
    let _ = m.did;
    Some(o)
}
